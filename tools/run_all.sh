#!/bin/sh
# usage: tools/run_all.sh quick|thorough [ids...]  -- runs the checks sequentially, prints one summary line each
TIER="${1:-quick}"; shift
IDS="${@:-C01 C02 C03 C04 C05 C06 C07 C08 C09 C10 C11 C12 C13 C14 C15 C16 C17 C18 C19 C20}"
for id in $IDS; do
  s=$(date +%s)
  /verif/check $id $TIER > /tmp/run_all.$id.out 2> /tmp/run_all.$id.err; rc=$?
  e=$(( $(date +%s) - s ))
  echo "$id rc=$rc ${e}s viol=$(grep -c '^VIOLATION' /tmp/run_all.$id.out) known=$(grep -c '^KNOWN-FINDING' /tmp/run_all.$id.out)"
  [ $rc -eq 2 ] && tail -3 /tmp/run_all.$id.err
done
