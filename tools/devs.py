#!/usr/bin/env python3
"""Debug helper: re-judge out/<id>/<Gen>.trace and list all deviations (any property)."""
import sys, json, os
sys.path.insert(0, os.path.dirname(os.path.dirname(os.path.abspath(__file__))))
import importlib.machinery, importlib.util
loader = importlib.machinery.SourceFileLoader("check", os.path.join(os.path.dirname(os.path.dirname(os.path.abspath(__file__))), "check"))
spec = importlib.util.spec_from_loader("check", loader); chk = importlib.util.module_from_spec(spec); loader.exec_module(chk)
pid, gen = sys.argv[1], sys.argv[2]
wd = os.path.join(chk.OUT, pid)
events, cls, devs, _ = chk.judge(os.path.join(wd, gen + ".trace"), wd, gen + ".dbg", 16)
by = {e["i"]: e for e in events}
import collections
cnt = collections.Counter((tuple(d["props"]), d["reason"]) for d in devs)
for k, v in cnt.most_common(): print(v, k)
for d in devs[:int(sys.argv[3]) if len(sys.argv) > 3 else 5]:
    e = by[d["i"]]
    print(json.dumps(d)[:300]); print("   ", json.dumps(e)[:600])
