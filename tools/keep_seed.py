#!/usr/bin/env python3
"""usage: tools/keep_seed.py <scratch id> <name> <detected-by: 'C06:reason,...'> [<property id>] -- copies /tmp/seed/<Cxx>/seed to /verif/seeded/<name>/ with meta.json"""
import sys, os, json, shutil
pid, name, det = sys.argv[1], sys.argv[2], sys.argv[3]
prop = sys.argv[4] if len(sys.argv) > 4 else pid
src = "/tmp/seed/%s/seed" % pid
dst = "/verif/seeded/%s" % name
os.makedirs(dst, exist_ok=True)
for f in os.listdir(src):
    if f != "meta.json":
        shutil.copy(os.path.join(src, f), os.path.join(dst, f))
m = json.load(open(os.path.join(src, "meta.json")))
log = open("/tmp/seed/verify.log").read()
line = [l for l in log.splitlines() if l.startswith(pid + ":")]
meta = dict(
    property=prop, summary=m.get("summary"), needs=m.get("needs"), demo=m.get("demo"),
    origin="independent sub-agent given only the property text and a scratch worktree (nothing from /verif)",
    confirmed=dict(
        how="tools/verify_seed.sh %s in the scratch worktree: demo without the change, `cargo test --workspace --offline` "
            "with the change (33 tests), demo with the change" % pid,
        result=line[-1] if line else "see DESIGN.md"),
    detection=dict(how="tools/try_seed.sh <patch> <checks>: git -C /repo apply, ./check <id> quick, git -C /repo checkout -- .",
                   detected_by=det),
)
json.dump(meta, open(os.path.join(dst, "meta.json"), "w"), indent=1)
print("kept", dst)
