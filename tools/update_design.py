#!/usr/bin/env python3
"""Regenerates the generated tables of DESIGN.md in place: 11.0 (tools/mktable.py) and the seed table of section 13
(from seeded/*/meta.json)."""
import glob, json, os, re, subprocess, sys
V = os.path.dirname(os.path.dirname(os.path.abspath(__file__)))
p = os.path.join(V, "DESIGN.md")
s = open(p).read()

def clip(t, n):
    t = " ".join(str(t).split()).replace("|", "/")
    return t if len(t) <= n else t[:n]

# ---- 11.0
table = subprocess.run([sys.executable, os.path.join(V, "tools", "mktable.py")], capture_output=True, text=True).stdout.strip()
s, n1 = re.subn(r"\| Prop \| Model-level modules \(TLC\) \|.*?\n(?=\n)", lambda m: table + "\n", s, count=1, flags=re.S)

# ---- 13
rows = ["| Seed (`/verif/seeded/`) | Prop | Change | Detected by / note |", "|---|---|---|---|"]
for d in sorted(glob.glob(os.path.join(V, "seeded", "*"))):
    m = json.load(open(os.path.join(d, "meta.json")))
    rows.append("| `%s` | %s | %s | %s |" % (os.path.basename(d), m["property"], clip(m.get("summary"), 240),
                                            clip(m["detection"]["detected_by"], 900)))
s, n2 = re.subn(r"\| Seed \(`/verif/seeded/`\) \| Prop \| Change \|.*?\n(?=\n|\Z)", lambda m: "\n".join(rows) + "\n", s, count=1, flags=re.S)
open(p, "w").write(s)
print("tables replaced:", n1, n2, "seeds:", len(rows) - 2)
