#!/usr/bin/env python3
"""Regenerates /verif/MANIFEST.json from checks_config.py (single source for the plumbing tables)."""
import json, os, subprocess, sys
V = os.path.dirname(os.path.dirname(os.path.abspath(__file__)))
sys.path.insert(0, V)
from checks_config import CHECKS, MANIFEST_TEXT

props = [json.loads(l)["id"] for l in open(os.path.join(V, "properties.jsonl")) if l.strip()]
hook_commits = subprocess.run(["git", "-C", "/repo", "log", "--format=%H", "--grep=^verif-hooks"], capture_output=True,
                              text=True).stdout.split()
checks = []
for pid in props:
    if pid not in CHECKS:
        continue
    t = MANIFEST_TEXT[pid]
    checks.append(dict(
        property_id=pid,
        quick_cmd="./check %s quick" % pid,
        thorough_cmd="./check %s thorough" % pid,
        evidence_file="/verif/evidence/%s.json" % pid,
        replay_cmd_template="./check replay {path}",
        engine="tlc-judge",
        level_claimed=dict(category=CHECKS[pid]["level"], text=t["text"], design_ref=t["design_ref"]),
        level_note=t["note"],
        technique=t["technique"],
    ))
m = dict(
    version=1,
    setup_cmd="./check setup",
    hooks=dict(
        guard="verif-hooks",
        enable="cargo feature: the executor crate (executor/Cargo.toml, feature `hooks`) depends on hdwallet with "
               "`--features verif-hooks`; if that build fails the checks fall back to the plain build and skip the "
               "hook-only sub-sweeps",
        baseline_off_cmd="cd /repo && cargo test --workspace --no-fail-fast --offline",
        source_commits=hook_commits,
        add_only=True,
    ),
    engines=[dict(
        name="tlc-judge", path="/verif/check", serves_properties=[c["property_id"] for c in checks],
        kind_free_text="TLA+ specification (spec/*.tla) used three ways by TLC: bounded-exhaustive model checks of the "
                       "hand-written algorithms (MC_*), workload generation (Gen_*), and trace validation of the "
                       "recorded executions of the real library/binary (Judge); crypto primitives are Java module "
                       "overrides independent of the implementation's dependencies")],
    checks=checks,
    notes="See DESIGN.md. exit 0 = held on everything explored, 1 = VIOLATION line, 2 = tool error. "
          "KNOWN_FINDINGS.txt lists open/fixed findings.",
    not_applicable=[dict(property_id=p, reason="check under construction in this round; plan in DESIGN.md section 6")
                    for p in props if p not in CHECKS],
)
json.dump(m, open(os.path.join(V, "MANIFEST.json"), "w"), indent=1)
print("claimed:", [c["property_id"] for c in checks])
