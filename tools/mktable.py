#!/usr/bin/env python3
"""Prints the per-property as-built table (markdown) from checks_config.py and the evidence files."""
import json, os, sys
V = os.path.dirname(os.path.dirname(os.path.abspath(__file__)))
sys.path.insert(0, V)
from checks_config import CHECKS
print("| Prop | Model-level modules (TLC) | Generators | Quick: TLC states / events judged / exact classes | Wall (quick) |")
print("|---|---|---|---|---|")
for pid in sorted(CHECKS):
    c = CHECKS[pid]
    mcs = ", ".join(sorted({m.get("tag", m.get("module", m.get("apalache"))) for m in c.get("mc", [])})) or "-"
    gens = ", ".join(g["module"] + ("*" if "thorough" in g.get("tiers", ()) and "quick" not in g.get("tiers", ("quick",)) else "") for g in c["gen"])
    try:
        e = json.load(open(os.path.join(V, "evidence", pid + ".json")))
        cov = e["coverage"]
        nums = "%d / %d / %d" % (cov["states"], cov["traces_validated_against_impl"], cov["distinct_nontrivial"])
        wall = "%ds (%s)" % (e["wall_s"], e["tier"])
    except Exception:
        nums, wall = "?", "?"
    print("| %s | %s | %s | %s | %s |" % (pid, mcs, gens, nums, wall))
