#!/bin/sh
# usage: tools/verify_seed.sh <Cxx>   (in the scratch worktree /tmp/seed/<Cxx>, seed/ directory present)
# Confirms: patch applies; test suite passes with the change; demo fails with it and passes without it.
ID="$1"; W=/tmp/seed/$ID; S=$W/seed
cd "$W" || exit 2
git checkout -q -- . ; rm -f tests/demo_$ID.rs
demo() {
  if [ -f "$S/demo.rs" ]; then cp "$S/demo.rs" tests/demo_$ID.rs; timeout 900 cargo test --offline --test demo_$ID >/tmp/seed/$ID.demo.log 2>&1; rc=$?; rm -f tests/demo_$ID.rs; return $rc
  else timeout 900 cargo build --offline >/dev/null 2>&1; timeout 900 $(head -1 "$S/demo.sh" | grep -q bash && echo bash || echo sh) "$S/demo.sh" >/tmp/seed/$ID.demo.log 2>&1; return $?; fi
}
demo; A=$?
git apply "$S/patch.diff" || { echo "$ID patch does not apply"; exit 1; }
timeout 1200 cargo test --workspace --offline >/tmp/seed/$ID.tests.log 2>&1; T=$?
NT=$(grep -h "test result" /tmp/seed/$ID.tests.log | awk '{s+=$4} END {print s}')
demo; B=$?
git checkout -q -- . ; rm -f tests/demo_$ID.rs
echo "$ID: demo_without_change_rc=$A tests_with_change_rc=$T passed=$NT demo_with_change_rc=$B"
[ $A -eq 0 ] && [ $T -eq 0 ] && [ "$NT" = "33" ] && [ $B -ne 0 ] && echo "$ID CONFIRMED" || echo "$ID NOT CONFIRMED"
