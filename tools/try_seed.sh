#!/bin/sh
# usage: tools/try_seed.sh <patch.diff> <Cxx> [<Cyy> ...]   -- applies the patch to /repo, runs the quick checks, reverts
P="$1"; shift
git -C /repo status --short | grep -q . && { echo "/repo not clean"; exit 2; }
git -C /repo apply "$P" || exit 2
for id in "$@"; do
  /verif/check "$id" quick > /tmp/try_seed.$id.out 2>/tmp/try_seed.$id.err; rc=$?
  echo "== $id rc=$rc  $(grep -c '^VIOLATION' /tmp/try_seed.$id.out) violation lines"; grep '^VIOLATION' /tmp/try_seed.$id.out | head -3; grep -A1 '^VIOLATION' /tmp/try_seed.$id.err | head -0
  grep 'reason=' /tmp/try_seed.$id.err | head -3
  [ $rc -eq 2 ] && tail -5 /tmp/try_seed.$id.err
done
git -C /repo checkout -- . && git -C /repo status --short
