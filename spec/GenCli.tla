------------------------------- MODULE GenCli -------------------------------
(***************************************************************************)
(* Workload families for invocations of the real binary (Gen_C11, Gen_C15, *)
(* Gen_C16, Gen_C19).  A workload item carries the structured command of   *)
(* Wallet.tla and its rendering Argv / EnvOf computed BY THE SPEC; the     *)
(* executor runs exactly that argv / environment.                          *)
(***************************************************************************)
EXTENDS GenTx, Wallet

Opt(src, v) == [src |-> src, v |-> v]

\* the three test mnemonics: "abandon .. about", the ganache one, a 24-word one (spec-made)
Mn1 == "abandon abandon abandon abandon abandon abandon abandon abandon abandon abandon abandon about"
Mn2 == "myth like bonus scare over problem client lizard pioneer submit female collect"
Mn3 == PhraseOfEntropy([i \in 1..32 |-> (i * 29 + 3) % 256])
Mnemonics == <<Mn1, Mn2, Mn3, "  " \o Mn2 \o "\n">>
PlainAcct(mn) == [mnemonic |-> Opt("env", mn), password |-> NoOpt, index |-> NoOpt, path |-> NoOpt]
NoAcct == [mnemonic |-> NoOpt, password |-> NoOpt, index |-> NoOpt, path |-> NoOpt]

Cmd(sub, what, acct, flags, sigtext, chan, inp) ==
  [sub |-> sub, what |-> what, acct |-> acct, flags |-> flags, sigtext |-> sigtext, chan |-> chan, inp |-> inp]

\* the executor input of a command: argv/env rendered by the spec, the input on its channel
CliIn(cmd) ==
  LET base == [cmd |-> cmd, argv |-> Argv(cmd), env |-> EnvOf(cmd), timeout_ms |-> 60000]
      spec == IF "rl" \in DOMAIN cmd.inp
                THEN [cat |-> <<BytesToHex(cmd.inp.rl.pre), [rep |-> cmd.inp.rl.rep, pat |-> BytesToHex(cmd.inp.rl.pat)], BytesToHex(cmd.inp.rl.tail)>>]
              ELSE IF "doc" \in DOMAIN cmd.inp THEN [doc |-> cmd.inp.doc]
              ELSE IF "hex" \in DOMAIN cmd.inp THEN [hex |-> cmd.inp.hex] ELSE [hex |-> ""]
  IN  IF cmd.chan = "file" THEN base @@ [files |-> (FileName(cmd) :> spec)]
      ELSE IF cmd.chan = "fifo" THEN base @@ [fifos |-> (FileName(cmd) :> spec)]
      ELSE IF cmd.chan \in {"stdin", "devstdin"} THEN base @@ [stdin |-> spec]
      ELSE base
\* the four ways of handing bytes to a command
Chans4 == <<"file", "stdin", "fifo", "devstdin">>
ChanNo(k) == Chans4[1 + (k % 4)]

\* file names that command line tools may take for something else: the conventional stdin marker, option look-alikes,
\* blanks, non-ASCII, hidden, hexadecimal / format / glob look-alikes (the command gets the absolute path of the file)
FileNames == <<"-", "--", "-x", "a b", CpsToStr(<<233, 46, 106, 115, 111, 110>>), ".hidden", "x-", "-.txt", "0x", "%s", "*", "stdin", "in">>

\* ---- content that text tools treat specially ------------------------------------------------
\* Byte strings with a prefix or suffix that editors, shells, terminals or lenient readers strip, translate or
\* interpret: byte order marks, hex / option / comment / JSON lead-ins, line ends, NUL, end-of-file control
\* characters, the EIP-191 prefix itself.  For the commands that work on raw bytes (hash data, hash / sign message,
\* hex encode) every byte counts.
MagicPre == <<<<>>, <<239, 187, 191>>, <<255, 254>>, <<254, 255>>, <<239, 187, 191, 239, 187, 191>>, <<48, 120>>, <<48, 88>>, <<10>>, <<13, 10>>,
              <<32>>, <<9>>, <<35, 33>>, <<35>>, <<64>>, <<45>>, <<45, 45>>, <<34>>, <<123>>, <<91>>, <<0>>, <<31, 139>>, <<37>>, <<27, 91>>, <<92>>,
              <<25>> \o StrToUtf8("Ethereum Signed Message:\n5"), <<194, 160>>, <<226, 128, 139>>>>
MagicSuf == <<<<10>>, <<13, 10>>, <<13>>, <<32>>, <<0>>, <<26>>, <<4>>, <<239, 187, 191>>, <<10, 10>>, <<92>>>>
MagicBodies == <<StrToUtf8("hello"), <<>>, StrToUtf8("0x68656c6c6f"), <<104, 233, 108, 108, 111, 255>>>>
NMagic == Len(MagicPre) + Len(MagicSuf)
\* k in 0..NMagic*Len(MagicBodies)-1 : content number k
MagicContent(k) ==
  LET b == MagicBodies[1 + (k \div NMagic)]
      m == k % NMagic
  IN  IF m < Len(MagicPre) THEN MagicPre[m + 1] \o b ELSE b \o MagicSuf[m - Len(MagicPre) + 1]
NMagicContents == NMagic * Len(MagicBodies)
\* An ambient environment: variables a user's shell may well contain, among them the upper-snake-case names of
\* every long option that is NOT specified to be read from the environment.  Only MNEMONIC, PASSWORD,
\* ACCOUNT_INDEX and HD_PATH mean anything to the tool (Wallet!EnvOf); everything else must change nothing.
Ambient == [ALLOW_MISSING_RELAY_PROTECTION |-> "true", SIGNATURE_ONLY |-> "true", MESSAGE_HASH |-> "true",
            SIGNATURE |-> "0x00", LENGTH |-> "24", LANGUAGE |-> "klingon", VANITY_PREFIX |-> "0xabcdef", VANITY_PASSWORD |-> "x",
            VANITY_ACCOUNT_INDEX |-> "9", VANITY_HD_PATH |-> "m/1", VANITY_THREADS |-> "3", TRANSACTION |-> "/dev/null",
            MESSAGE |-> "/dev/null", TYPEDDATA |-> "/dev/null", DATA |-> "/dev/null", BYTES |-> "0x00", INDEX |-> "5", PATH_ |-> "m/5",
            HOME |-> "/nonexistent", LANG |-> "tr_TR.UTF-8", LC_ALL |-> "C", TERM |-> "dumb", COLUMNS |-> "10", NO_COLOR |-> "1",
            CLICOLOR_FORCE |-> "1", RUST_BACKTRACE |-> "full", RUST_LOG |-> "trace", CLAP_COMPLETE |-> "bash", HDWALLET_MNEMONIC |-> "x"]
AItem(fam, cmd) ==
  LET in0 == CliIn(cmd) IN [i |-> 0, op |-> "cli", fam |-> fam, in |-> [in0 EXCEPT !.env = in0.env @@ Ambient]]
CItem(fam, cmd) == [i |-> 0, op |-> "cli", fam |-> fam, in |-> CliIn(cmd)]
\* session step: sid groups the steps, rel is a relation the judge checks against earlier outputs
SItem(fam, sid, cmd, rel) == [i |-> 0, op |-> "cli", fam |-> fam, sid |-> sid, in |-> CliIn(cmd) @@ [rel |-> rel]]
=============================================================================
