------------------------------- MODULE GenCli -------------------------------
(***************************************************************************)
(* Workload families for invocations of the real binary (Gen_C11, Gen_C15, *)
(* Gen_C16, Gen_C19).  A workload item carries the structured command of   *)
(* Wallet.tla and its rendering Argv / EnvOf computed BY THE SPEC; the     *)
(* executor runs exactly that argv / environment.                          *)
(***************************************************************************)
EXTENDS GenTx, Wallet

Opt(src, v) == [src |-> src, v |-> v]

\* the three test mnemonics: "abandon .. about", the ganache one, a 24-word one (spec-made)
Mn1 == "abandon abandon abandon abandon abandon abandon abandon abandon abandon abandon abandon about"
Mn2 == "myth like bonus scare over problem client lizard pioneer submit female collect"
Mn3 == PhraseOfEntropy([i \in 1..32 |-> (i * 29 + 3) % 256])
Mnemonics == <<Mn1, Mn2, Mn3, "  " \o Mn2 \o "\n">>
PlainAcct(mn) == [mnemonic |-> Opt("env", mn), password |-> NoOpt, index |-> NoOpt, path |-> NoOpt]
NoAcct == [mnemonic |-> NoOpt, password |-> NoOpt, index |-> NoOpt, path |-> NoOpt]

Cmd(sub, what, acct, flags, sigtext, chan, inp) ==
  [sub |-> sub, what |-> what, acct |-> acct, flags |-> flags, sigtext |-> sigtext, chan |-> chan, inp |-> inp]

\* the executor input of a command: argv/env rendered by the spec, the input on its channel
CliIn(cmd) ==
  LET base == [cmd |-> cmd, argv |-> Argv(cmd), env |-> EnvOf(cmd), timeout_ms |-> 60000]
      spec == IF "doc" \in DOMAIN cmd.inp THEN [doc |-> cmd.inp.doc]
              ELSE IF "hex" \in DOMAIN cmd.inp THEN [hex |-> cmd.inp.hex] ELSE [hex |-> ""]
  IN  IF cmd.chan = "file" THEN base @@ [files |-> [in |-> spec]]
      ELSE IF cmd.chan = "stdin" THEN base @@ [stdin |-> spec]
      ELSE base
CItem(fam, cmd) == [i |-> 0, op |-> "cli", fam |-> fam, in |-> CliIn(cmd)]
\* session step: sid groups the steps, rel is a relation the judge checks against earlier outputs
SItem(fam, sid, cmd, rel) == [i |-> 0, op |-> "cli", fam |-> fam, sid |-> sid, in |-> CliIn(cmd) @@ [rel |-> rel]]
=============================================================================
