SPECIFICATION Spec
INVARIANT RoundTrip
INVARIANT StyleInvariant
INVARIANT SlipsRefused
INVARIANT Total
PROPERTY ErrSticky
PROPERTY Terminates
CHECK_DEADLOCK FALSE
