-------------------------------- MODULE Bip32 --------------------------------
(***************************************************************************)
(* BIP-32 private derivation as a fold of the CKDpriv step.  State:        *)
(* [ok, k (32-byte key), c (32-byte chain code)].  HMAC-SHA512 and the     *)
(* public key are primitives; the data layout, Ser32 with the hardened     *)
(* bit, the comparison with n and the addition mod n are TLA+.             *)
(* Anchors: src/hdk.rs.                                                     *)
(***************************************************************************)
EXTENDS Bytes, Prim, Ecdsa, HdPath

BitcoinSeed == <<66, 105, 116, 99, 111, 105, 110, 32, 115, 101, 101, 100>>     \* "Bitcoin seed"
Invalid == [ok |-> FALSE, k |-> <<>>, c |-> <<>>]
Ext(k, c) == [ok |-> TRUE, k |-> k, c |-> c]

Master(seed) ==
  LET I == HmacSha512(BitcoinSeed, seed) IN Ext(SubSeq(I, 1, 32), SubSeq(I, 33, 64))

\* ser32(i) with the 2^31 bit for hardened components (i < 2^31)
Ser32(comp) ==
  LET b == BnFixed(comp.idx, 4) IN [b EXCEPT ![1] = b[1] + (IF comp.hard THEN 128 ELSE 0)]

CKD(st, comp) ==
  IF ~st.ok \/ ~InScalarRange(st.k) THEN Invalid
  ELSE
  LET data == IF comp.hard THEN <<0>> \o st.k \o Ser32(comp) ELSE Pub33(st.k) \o Ser32(comp)
      I    == HmacSha512(st.c, data)
      IL   == SubSeq(I, 1, 32)
  IN  IF ~BnLt(IL, CurveN) THEN Invalid                   \* BIP-32: invalid, proceed with next index
      ELSE LET k2 == BnAddMod(BnNorm(IL), BnNorm(st.k), CurveN)
           IN  IF BnIsZero(k2) THEN Invalid ELSE Ext(BnFixed(k2, 32), SubSeq(I, 33, 64))

\* ---- rare shapes ----------------------------------------------------------------------
\* The smallest hardened index i in lo..hi whose child of st is valid and starts with at least nz zero bytes
\* (-1 if none).  RareHardenedChild is evaluated natively (overrides/HdwPrims.java) so that a window of 2^20
\* candidates can be searched; RareHardenedChildSpec is the same definition evaluated by TLC (PrimTest compares them).
LeadingZeroBytes(b) == FirstNonZero(b, 1) - 1
RareHardenedChildSpec(k, c, nz, lo, hi) ==
  LET S == {i \in lo..hi : LET ch == CKD(Ext(k, c), Comp(TRUE, BnFromNat(i))) IN ch.ok /\ LeadingZeroBytes(ch.k) >= nz}
  IN  IF S = {} THEN 0 - 1 ELSE CHOOSE i \in S : \A q \in S : i <= q
RareHardenedChild(k, c, nz, lo, hi) == RareHardenedChildSpec(k, c, nz, lo, hi)

RECURSIVE DeriveFrom(_, _, _)
DeriveFrom(st, comps, i) == IF i > Len(comps) THEN st ELSE DeriveFrom(CKD(st, comps[i]), comps, i + 1)
Derive(seed, comps) ==
  LET st == DeriveFrom(Master(seed), comps, 1)
  IN  IF st.ok /\ InScalarRange(st.k) THEN st ELSE Invalid
=============================================================================
