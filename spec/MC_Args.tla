------------------------------- MODULE MC_Args -------------------------------
(***************************************************************************)
(* Model check of the command line grammar (Args.tla) as Wallet.tla uses   *)
(* it: the token machine is stepped one argv token per action over every   *)
(* command of a bounded universe (every command form, the source lattice   *)
(* none / flag / environment of the four account options, values with      *)
(* blanks, "=", empty), in every spelling style (5 option spellings x      *)
(* reversed account options x inner options after the positional x "--")   *)
(* and under every single-token mutation (drop / repeat a token, an        *)
(* unknown option before every token, a surplus argument, the account      *)
(* options of `sign` after the inner subcommand).                          *)
(*                                                                         *)
(*  Total           the machine consumes every line and ends with a        *)
(*                  refusal or a complete command (no stuck state)         *)
(*  RoundTrip       an unmutated line is refused exactly when the mnemonic *)
(*                  is missing or both selectors are given (from whichever *)
(*                  sources), with that reason; otherwise its meaning is   *)
(*                  the command: same subcommands, the same option values  *)
(*                  WITH their sources, flags, signature text, positional  *)
(*  StyleInvariant  (consequence, stated separately) the meaning does not  *)
(*                  depend on the style                                    *)
(*  SlipsRefused    an unknown option before the "--", a repeated option   *)
(*                  token, a dropped option value, a surplus argument, an  *)
(*                  account option after the inner subcommand: refused     *)
(*  ErrSticky       once refused, always refused (no later token repairs)  *)
(***************************************************************************)
EXTENDS GenCli, NewCmd, FiniteSets

Vals == [mnemonic |-> <<Mn2>>, password |-> <<"TREZOR", "", "a=b", "pass word", "=x">>, index |-> <<"7">>, path |-> <<"m/44'/60'/0'/0/7">>]
OptC(key, src, k) == IF src = "none" THEN NoOpt ELSE Opt(src, Vals[key][k])
Srcs == {"none", "flag", "env"}
Accts == {[mnemonic |-> OptC("mnemonic", ms, 1), password |-> OptC("password", ps, pk), index |-> OptC("index", is, 1), path |-> OptC("path", hs, 1)] :
            ms \in Srcs, ps \in Srcs, pk \in 1..5, is \in Srcs, hs \in Srcs}
SomeAccts == {a \in Accts : a.password.v \in {"", "TREZOR"} /\ a.path.src = "none" /\ a.index.src # "env"}
FewAccts == {a \in SomeAccts : a.mnemonic.src = "flag" /\ a.password.src # "env"}
Msg == [hex |-> "6869"]
Doc == [doc |-> MkDoc(Default("legacy", <<60>>))]
SigT == "0x" \o BytesToHex(Rep(31, 0) \o <<1>> \o Rep(31, 0) \o <<1>> \o <<27>>)
FlagSets == {<<>>, <<"signature_only">>, <<"allow_missing">>, <<"signature_only", "allow_missing">>}
Base ==
  {Cmd("address", "", a, <<>>, "", "none", [hex |-> ""]) : a \in Accts}
  \cup {Cmd(sub, "", a, <<>>, "", "none", [hex |-> ""]) : sub \in {"export", "public-key"}, a \in FewAccts}
  \cup {Cmd("sign", "message", a, <<>>, "", ch, Msg) : a \in SomeAccts, ch \in {"file", "stdin"}}
  \cup {Cmd("sign", "transaction", a, fl, "", "file", Doc) : a \in {PlainAcct(Mn2), [PlainAcct(Mn2) EXCEPT !.mnemonic = Opt("flag", Mn2)]}, fl \in FlagSets}
  \cup {Cmd("sign", "typeddata", [PlainAcct(Mn2) EXCEPT !.mnemonic = Opt("flag", Mn2), !.index = Opt("flag", "7")], <<>>, "", "devstdin", Doc)}
  \cup {Cmd("sign", "raw", [PlainAcct(Mn2) EXCEPT !.password = Opt("flag", "a=b")], <<>>, "", "arg", [arg |-> "0x" \o BytesToHex(Rep(32, 7))])}
  \cup {Cmd("hash", "transaction", NoAcct, <<>>, sg, ch, Doc) : sg \in {"", SigT}, ch \in {"file", "stdin"}}
  \cup {Cmd("hash", "typeddata", NoAcct, fl, "", "file", Doc) : fl \in {<<>>, <<"message_hash">>}}
  \cup {Cmd("hash", w, NoAcct, <<>>, "", "stdin", Msg) : w \in {"message", "data"}}
  \cup {Cmd("hex", w, NoAcct, <<>>, "", ch, Msg) : w \in {"encode", "decode"}, ch \in {"file", "stdin"}}

StyleSet == {[opt |-> Styles[k], rev |-> r, late |-> l, dd |-> d] : k \in 1..Len(Styles), r \in BOOLEAN, l \in BOOLEAN, d \in BOOLEAN}
Styled == {c @@ [style |-> sty] : c \in Base, sty \in StyleSet}
\* mutations are applied to the lines in the plain orders (rev = FALSE)
LateSeqs == {SelectSeq(OptOrder, LAMBDA x : x \in ks) : ks \in (SUBSET {"mnemonic", "password", "index", "path"}) \ {{}}}
MutsOf(c) == LET n == Len(Argv0(c)) IN
  {[k |-> k, at |-> at] : k \in {"drop", "dup", "unknown"}, at \in 2..n} \cup {[k |-> "surplus", at |-> 0]}
    \cup (IF c.sub = "sign" THEN {[k |-> "acct_late", at |-> 0, late |-> l] : l \in LateSeqs} ELSE {})
\* ... of a smaller set of commands (every form; the account options that matter for the slip)
MutBase == {c \in Base : c.sub # "address" \/ (c.acct.password.v \in {"", "TREZOR"} /\ c.acct.mnemonic.src # "none" /\ c.acct.password.src # "env")}
Mutated == UNION {{c @@ [mut |-> m] : m \in MutsOf(c)} : c \in {d @@ [style |-> sty] : d \in MutBase, sty \in {y \in StyleSet : ~y.rev /\ ~y.dd}}}
Universe == Styled \cup Mutated

VARIABLES cmd, argv, i, s, done
vars == <<cmd, argv, i, s, done>>
Init == cmd \in Universe /\ argv = Mat(Argv(cmd)) /\ i = 1 /\ s = ArgS0 /\ done = FALSE
Token == ~done /\ i <= Len(argv) /\ s' = ArgTok(s, argv[i]) /\ i' = i + 1 /\ UNCHANGED <<cmd, argv, done>>
End == ~done /\ i > Len(argv) /\ s' = ArgFinish(s, EnvOf(cmd)) /\ done' = TRUE /\ UNCHANGED <<cmd, argv, i>>
Next == Token \/ End
Spec == Init /\ [][Next]_vars /\ WF_vars(Next)

MeaningCmd(c) ==
  [sub |-> c.sub, what |-> c.what, acct |-> c.acct, flags |-> {c.flags[k] : k \in 1..Len(c.flags)}, sigtext |-> c.sigtext,
   pos |-> InputArg(c)]
NeedsMn(c)  == NeedsAccount(c) /\ c.acct.mnemonic.src = "none"
BothSel(c)  == NeedsAccount(c) /\ c.acct.index.src # "none" /\ c.acct.path.src # "none"
\* a flag-sourced value written as a token of its own that looks like an option ("=x" does not)
Plain(c) == "mut" \notin DOMAIN c
RoundTrip ==
  (done /\ Plain(cmd)) =>
    IF NeedsMn(cmd) THEN s.err = "mnemonic_required"
    ELSE IF BothSel(cmd) THEN s.err = "selectors_combined"
    ELSE s.err = "" /\ MeaningOf(s) = MeaningCmd(cmd)
StyleInvariant ==
  (done /\ Plain(cmd) /\ s.err = "") => MeaningOf(s) = MeaningOf(ParseArgv(Argv([cmd EXCEPT !.style = [opt |-> "sp", rev |-> FALSE, late |-> FALSE, dd |-> FALSE]]), EnvOf(cmd)))
\* the first token of a rendered option (an option name), the value token that follows it
IsOptTok(t) == LET b == StrToUtf8(t) IN Len(b) >= 2 /\ b[1] = 45 /\ t # "--"
DdAt(a) == IF \E k \in 1..Len(a) : a[k] = "--" THEN CHOOSE k \in 1..Len(a) : a[k] = "--" ELSE Len(a) + 1
SlipsRefused ==
  (done /\ ~Plain(cmd)) =>
    LET a == Argv0(cmd)
        m == cmd.mut
    IN  /\ (m.k = "unknown" /\ m.at <= DdAt(a)) => s.err # ""
        /\ (m.k = "dup" /\ IsOptTok(a[m.at]) /\ m.at < DdAt(a)) => s.err # ""
        \* a dropped VALUE token (the token after a value option written in two tokens)
        /\ (m.k = "drop" /\ m.at > 2 /\ m.at < DdAt(a) /\ ~IsOptTok(a[m.at]) /\ IsOptTok(a[m.at - 1])
              /\ a[m.at - 1] \in {"--mnemonic", "--password", "--account-index", "--hd-path", "--signature", "-m", "-s"}
              /\ ~(cmd.sub = "hash" /\ cmd.what = "typeddata")) => s.err # ""
        /\ m.k = "surplus" => s.err # ""
        /\ (m.k = "acct_late" /\ \E k \in 1..4 : cmd.acct[OptOrder[k]].src = "flag" /\ InSeq(OptOrder[k], m.late)) => s.err # ""
\* MUST FAIL (MC_Args_naive.cfg, run by `./check selftest models`): "every slip is refused" is false - a dropped flag or a
\* repeated positional of `hex` leaves another well-formed line; SlipsRefused above names exactly the slips that are refused
SlipsAlwaysRefused == (done /\ ~Plain(cmd)) => s.err # ""
Total == done => (s.err # "" \/ (s.pend = "" /\ ArgNode(s.path).subs = {} /\ Len(s.pos) >= ArgNode(s.path).lo))
ErrSticky == [][s.err # "" => s'.err # ""]_vars
Terminates == <>done
\* anti-vacuity: every refusal reason of the machine occurs, and accepted lines of every subcommand
Finals == {ParseArgv(Argv(c), EnvOf(c)) : c \in Mutated}
ASSUME {"unknown_option", "option_repeated", "value_missing", "value_looks_like_option", "selectors_combined",
        "unexpected_argument", "unknown_subcommand", "argument_missing"} \subseteq {f.err : f \in Finals}
\* lines read by the real binary while this module was written (clap 4; exit status 2 = refused), as theorems about the machine
NoEnv == [x \in {} |-> ""]
MnEnv == [x \in {"MNEMONIC"} |-> Mn2]
L(av, ev) == ParseArgv(av, ev).err
ASSUME L(<<"address", "--password", "-x">>, MnEnv) = "value_looks_like_option"
ASSUME L(<<"address", "--password", "-">>, MnEnv) = ""
ASSUME L(<<"address", "--password", "--">>, MnEnv) = "value_missing"
ASSUME L(<<"address", "--password=-x">>, MnEnv) = ""
ASSUME L(<<"address", "--password=">>, MnEnv) = ""
ASSUME L(<<"address", "--password", "">>, MnEnv) = ""
ASSUME L(<<"address", "--password", "--", "--">>, MnEnv) = "value_missing"
ASSUME L(<<"address", "--">>, MnEnv) = ""
ASSUME L(<<"address">>, NoEnv) = "mnemonic_required"
ASSUME L(<<"address", "x">>, MnEnv) = "unexpected_argument"
ASSUME L(<<"address", "--account-inde", "1">>, MnEnv) = "unknown_option"
ASSUME L(<<"address", "-m", Mn2, "-m", Mn2>>, NoEnv) = "option_repeated"
ASSUME L(<<"addres">>, MnEnv) = "unknown_subcommand"
ASSUME L(<<"hex", "encode", "--", "-">>, NoEnv) = ""
ASSUME L(<<"hex", "--", "encode">>, NoEnv) = "unexpected_argument"
ASSUME L(<<"hash", "data", "f", "f">>, NoEnv) = "unexpected_argument"
ASSUME L(<<"hash", "typeddata", "-m", "-m", "f">>, NoEnv) = "option_repeated"
ASSUME L(<<"hash", "typeddata", "--message-hash=true", "f">>, NoEnv) = "flag_with_value"
ASSUME L(<<"hash", "transaction", "-s">>, NoEnv) = "value_missing"
ASSUME L(<<"sign", "message">>, MnEnv) = "argument_missing"
ASSUME L(<<"sign", "message", "-m", Mn2, "f">>, NoEnv) = "unknown_option"
ASSUME L(<<"sign", "message", "f", "-m", Mn2>>, NoEnv) = "unknown_option"
ASSUME L(<<"sign", "message", "--", "f">>, MnEnv) = ""
ASSUME L(<<"sign">>, MnEnv) = "subcommand_missing"
ASSUME L(<<"hash">>, NoEnv) = "subcommand_missing"
ASSUME L(<<>>, NoEnv) = "subcommand_missing"
\* requests for text: wherever --help stands before the "--" (and not in the place of an option's value) the line asks for help
ASSUME L(<<"address", "--help">>, NoEnv) = "help_requested"
ASSUME L(<<"-h">>, NoEnv) = "help_requested"
ASSUME L(<<"sign", "-h">>, NoEnv) = "help_requested"
ASSUME L(<<"sign", "help">>, MnEnv) = "help_requested"
ASSUME L(<<"help", "sign">>, NoEnv) = "help_requested"
ASSUME L(<<"hash", "data", "--help">>, NoEnv) = "help_requested"
ASSUME L(<<"hash", "data", "f", "--help">>, NoEnv) = "help_requested"
ASSUME L(<<"hash", "data", "--", "--help">>, NoEnv) = ""
ASSUME L(<<"hex", "encode", "help">>, NoEnv) = ""
ASSUME L(<<"--version">>, NoEnv) = "version_requested"
ASSUME L(<<"-V">>, NoEnv) = "version_requested"
ASSUME L(<<"address", "--version">>, MnEnv) = "unknown_option"
ASSUME L(<<"new", "--help">>, NoEnv) = "help_requested"
\* `new`: rendering and parsing are inverse in every style and both orders; the vanity selectors conflict
NewBase == {[length |-> l, prefix |-> p, vpassword |-> w, vindex |-> ix, vpath |-> "", threads |-> j] :
              l \in {"", "24"}, p \in {"", "0xAb"}, w \in {"", "pass word", "a=b"}, ix \in {"", "3"}, j \in {"", "0", "2"}}
            \cup {[length |-> "12", prefix |-> "0x5", vpassword |-> "", vindex |-> "", vpath |-> "m/44'/60'/0'/0/1", threads |-> "1", language |-> "English"]}
NewStyles == {[opt |-> Styles[k], rev |-> r] : k \in 1..5, r \in BOOLEAN}
NewRoundTripAt(c) ==
  LET p == ParseArgv(NewArgv(c), NoEnv) IN
  p.err = "" /\ p.path = <<"new">> /\ p.pos = <<>> /\ \A q \in 1..7 : OptOf(p, NewKeys[q]).v = NewVal(c, NewKeys[q])
ASSUME \A c \in NewBase : NewRoundTripAt(c) /\ \A sty \in NewStyles : NewRoundTripAt(c @@ [style |-> sty])
ASSUME L(<<"new", "--vanity-account-index", "1", "--vanity-hd-path", "m/0">>, NoEnv) = "selectors_combined"
ASSUME L(<<"new", "-n">>, NoEnv) = "value_missing"
ASSUME L(<<"new", "-n", "-1">>, NoEnv) = "value_looks_like_option"
ASSUME L(<<"new", "12">>, NoEnv) = "unexpected_argument"
ASSUME L(<<"new", "--mnemonic", "x">>, NoEnv) = "unknown_option"
\* flag beats environment; the conflict of the selectors is seen across the two sources
ASSUME MeaningOf(ParseArgv(<<"address", "--account-index", "2">>, [x \in {"MNEMONIC", "ACCOUNT_INDEX"} |-> IF x = "MNEMONIC" THEN Mn2 ELSE "1"])).acct.index = [src |-> "flag", v |-> "2"]
ASSUME L(<<"address", "--hd-path", "m/0">>, [x \in {"MNEMONIC", "ACCOUNT_INDEX"} |-> IF x = "MNEMONIC" THEN Mn2 ELSE "1"]) = "selectors_combined"
ASSUME {"address", "export", "public-key", "sign", "hash", "hex"} \subseteq {f.path[1] : f \in {g \in Finals : g.err = "" /\ g.path # <<>>}}
=============================================================================
