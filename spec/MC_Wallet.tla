----------------------------- MODULE MC_Wallet -----------------------------
(***************************************************************************)
(* Model check of the CLI stage machine of Wallet.tla over a set of        *)
(* concrete commands (the primitives are evaluated, so the data is real):  *)
(* sign / hash transaction over kind x chain id x override flag x          *)
(* signature-only, the other sign / hash forms, address / export /         *)
(* public-key with every selector source combination.                      *)
(*                                                                         *)
(*  StagesOK        every state is in a known stage                        *)
(*  ReplayGuard     `sign` prints a legacy transaction without chain id    *)
(*                  only under --allow-missing-relay-protection            *)
(*  ChainBound      a printed signed transaction with chain id c decodes   *)
(*                  (strict RLP) to v = 35 + 2c + parity as an integer     *)
(*                  (legacy) / first field c (typed), and its signature    *)
(*                  recovers to the account over the digest that binds c   *)
(*  SignHashAgree   what `sign X` prints verifies over what `hash X`       *)
(*                  prints for the address `address` prints                *)
(*  SilentFailure   a failed run has no output                             *)
(*  SelectorsExclusive  both selectors given never prints                  *)
(*  ChannelIndependent  the outcome is the same on every input channel     *)
(*  Terminates      every behaviour reaches printed / failed / open        *)
(***************************************************************************)
EXTENDS GenCli, FiniteSets

Acct(ixSrc, ix, pathSrc, path, pwSrc, pw, mnSrc) ==
  [mnemonic |-> Opt(mnSrc, Mn2), password |-> Opt(pwSrc, pw), index |-> Opt(ixSrc, ix), path |-> Opt(pathSrc, path)]
Plain == PlainAcct(Mn2)

ChainChoices == {"absent", "one", "maxfit", "over"}
ChainNode(c) == IF c = "absent" THEN Absent ELSE IF c = "one" THEN NHexQty(<<1>>)
                ELSE IF c = "maxfit" THEN NHexQty(BnSub(BnPow2(255), <<19>>)) ELSE NHexQty(BnSub(BnPow2(255), <<18>>))
TxDoc(kind, c) == [doc |-> MkDoc([Default(kind, <<60>>) EXCEPT !["chainId"] = ChainNode(c)])]
FlagSets == {<<>>, <<"signature_only">>, <<"allow_missing">>, <<"signature_only", "allow_missing">>}

SignTx == {Cmd("sign", "transaction", Plain, fl, "", "file", TxDoc(kind, c)) :
             kind \in {"legacy", "2930", "1559"}, c \in ChainChoices, fl \in FlagSets}
HashTx == {Cmd("hash", "transaction", NoAcct, <<>>, "", "stdin", TxDoc(kind, c)) : kind \in {"legacy", "1559"}, c \in {"absent", "one"}}
Msg == [hex |-> "68656c6c6f20776f726c6421"]
Others == {Cmd("sign", "message", Plain, <<>>, "", "file", Msg), Cmd("hash", "message", NoAcct, <<>>, "", "stdin", Msg),
           Cmd("hash", "data", NoAcct, <<>>, "", "file", Msg),
           Cmd("sign", "raw", Plain, <<>>, "", "arg", [arg |-> "0x" \o BytesToHex(Rep(32, 7))]),
           Cmd("sign", "raw", Plain, <<>>, "", "arg", [arg |-> "0x0707"]),
           Cmd("hex", "encode", NoAcct, <<>>, "", "stdin", Msg),
           Cmd("hex", "decode", NoAcct, <<>>, "", "stdin", [hex |-> BytesToHex(StrToUtf8("0x 0aF\n1"))]),
           Cmd("hex", "decode", NoAcct, <<>>, "", "stdin", [hex |-> BytesToHex(StrToUtf8("0x0g"))])}
Selectors == {Cmd(sub, "", Acct(ixs, "7", ps, "m/44'/60'/0'/0/7", pws, "TREZOR", mns), <<>>, "", "none", [hex |-> ""]) :
                sub \in {"address", "export", "public-key"}, ixs \in {"none", "flag", "env"}, ps \in {"none", "flag", "env"},
                pws \in {"none", "env"}, mns \in {"flag", "env", "none"}}
Commands == SignTx \cup HashTx \cup Others \cup Selectors

VARIABLE st
Init == st \in {InitState(c) : c \in Commands}
Next == st.pc \notin Terminal /\ st' = Step(st)
Spec == Init /\ [][Next]_st /\ WF_st(Next)

Stages == {"options", "account", "input", "decode", "guard", "digest", "sign", "print"} \cup Terminal
StagesOK == st.pc \in Stages
IsSignTx == st.cmd.sub = "sign" /\ st.cmd.what = "transaction"
ReplayGuard ==
  (st.pc = "printed" /\ IsSignTx /\ st.tx.kind = "legacy" /\ st.tx.chainId = <<>>) => HasFlag(st.cmd, "allow_missing")
ChainBound ==
  (st.pc = "printed" /\ IsSignTx /\ st.tx.chainId # <<>>) =>
    /\ AddressOfPub(EcRecover(SigningDigest(st.tx), st.sig.r, st.sig.s, st.sig.par)) = AddressOf(st.key)
    \* the same signature does not recover to the account under another chain id
    /\ AddressOfPub(EcRecover(SigningDigest([st.tx EXCEPT !.chainId = <<BnAdd(st.tx.chainId[1], <<1>>)>>]),
                              st.sig.r, st.sig.s, st.sig.par)) # AddressOf(st.key)
    /\ (~HasFlag(st.cmd, "signature_only") =>
          LET hex  == SubSeq(st.out, 3, Len(st.out) - 1)
              bs   == HexPairs(hex)
              body == IF st.tx.kind = "legacy" THEN bs ELSE Tail(bs)
              d    == StrictDecode(body)
          IN  /\ d.ok
              /\ IF st.tx.kind = "legacy"
                 THEN /\ d.item.v[7].v = BnNorm(BnAdd(BnAdd(st.tx.chainId[1], st.tx.chainId[1]), <<35 + st.sig.par>>))
                      \* within the range the property names, v fits 256 bits (beyond it the outcome is open)
                      /\ (VFits256(st.tx.chainId) => BnBitLen(d.item.v[7].v) <= 256)
                 ELSE d.item.v[1].v = BnNorm(st.tx.chainId[1]))
    /\ (HasFlag(st.cmd, "signature_only") => st.out[Len(st.out) - 2] = 49 /\ st.out[Len(st.out) - 1] \in {98, 99})   \* v = 1b / 1c
SignHashAgree ==
  (st.pc = "printed" /\ st.cmd.sub = "sign") =>
    AddressOfPub(EcRecover(st.digest, st.sig.r, st.sig.s, st.sig.par)) = AddressOf(st.key)
SilentFailure == st.pc = "failed" => st.out = <<>>
SelectorsExclusive ==
  (st.pc = "printed" /\ NeedsAccount(st.cmd)) => (st.cmd.acct.index.src = "none" \/ st.cmd.acct.path.src = "none")
\* flag and environment are interchangeable: the key depends on the option values only
SourcesEquivalent ==
  (st.pc = "printed" /\ st.cmd.sub = "address" /\ st.cmd.acct.password.src # "none") =>
    st.key = Run(Cmd("address", "", Acct(IF st.cmd.acct.index.src = "none" THEN "none" ELSE "flag", "7",
                                         IF st.cmd.acct.path.src = "none" THEN "none" ELSE "flag", "m/44'/60'/0'/0/7",
                                         "flag", "TREZOR", "flag"), <<>>, "", "none", [hex |-> ""])).key
\* the over-large chain id class is open: the spec must not claim a printed-only outcome there
OverflowIsOpen ==
  (st.pc = "printed" /\ IsSignTx /\ st.tx.kind = "legacy" /\ st.tx.chainId # <<>> /\ ~VFits256(st.tx.chainId)) => st.either
\* the outcome does not depend on the channel the input arrives on (regular file, stdin, named pipe, /dev/stdin)
ChannelIndependent ==
  (st.pc \in Terminal /\ st.cmd.chan \in {"file", "stdin"}) =>
    \A ch \in {"file", "stdin", "fifo", "devstdin"} :
      LET f == Run([st.cmd EXCEPT !.chan = ch]) IN f.pc = st.pc /\ f.out = st.out /\ f.why = st.why
Terminates == <>(st.pc \in Terminal)
ASSUME Cardinality(Commands) = 48 + 4 + 8 + 162
\* anti-vacuity: the command set reaches every terminal kind, every refusal the invariants speak about, and a
\* printed result of every subcommand
Finals == {Run(c) : c \in Commands}
ASSUME {f.pc : f \in Finals} = Terminal
ASSUME {"missing_replay_protection", "selectors_combined", "mnemonic_required", "raw_digest", "hex_text"} \subseteq {f.why : f \in Finals}
ASSUME {"address", "export", "public-key", "sign", "hash", "hex"} = {f.cmd.sub : f \in {g \in Finals : g.pc = "printed"}}
ASSUME \E f \in Finals : f.pc = "printed" /\ f.cmd.sub = "sign" /\ f.cmd.what = "transaction" /\ f.tx.kind = "legacy" /\ f.tx.chainId = <<>>
ASSUME \E f \in Finals : f.pc = "printed" /\ f.either /\ f.cmd.what = "transaction"
=============================================================================
