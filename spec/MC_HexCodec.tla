----------------------------- MODULE MC_HexCodec -----------------------------
(* Decode(layout(Encode(b))) = b for all byte strings up to length 2 over      *)
(* {00, 0f, a0, ff} x every placement of {nothing, SPACE, LF} in each gap x    *)
(* {lower, upper} x {prefix, none}; a non-hex character anywhere and an odd    *)
(* number of digits are rejected.                                              *)
EXTENDS HexCodec, TLC
Alpha == {0, 15, 160, 255}
Strings == {<<>>} \cup [1..1 -> Alpha] \cup [1..2 -> Alpha]
Gap == {<<>>, <<32>>, <<10>>}
VARIABLES b, upper, prefix, gaps
vars == <<b, upper, prefix, gaps>>
\* the text: optional 0x, digits; gaps[k] is placed before character k (and one at the end)
Digits == LET low == HexLower(b) IN [i \in 1..Len(low) |-> IF upper /\ IsLowerHexCode(low[i]) THEN low[i] - 32 ELSE low[i]]
Chars  == (IF prefix THEN <<48, 120>> ELSE <<>>) \o Digits
Init == /\ b \in Strings /\ upper \in BOOLEAN /\ prefix \in BOOLEAN
        /\ gaps \in [1..(2 * Len(b) + (IF prefix THEN 2 ELSE 0) + 1) -> Gap]
Next == UNCHANGED vars
Spec == Init /\ [][Next]_vars
Text == Concat([k \in 1..Len(Chars) |-> gaps[k] \o <<Chars[k]>>]) \o gaps[Len(Chars) + 1]
RoundTrip == LET d == HexDecodeClass(Text) IN d.c = "accept" /\ d.v = b
EncodeShape == HexEncodeOut(b) = <<48, 120>> \o HexLower(b) \o <<10>> /\ HexDecodeClass(HexEncodeOut(b)).v = b
Corruptions ==
  /\ \A k \in 1..Len(Digits) : HexDecodeClass((IF prefix THEN <<48, 120>> ELSE <<>>) \o [Digits EXCEPT ![k] = 103]).c = "reject"
  /\ (Len(Digits) > 0 => HexDecodeClass((IF prefix THEN <<48, 120>> ELSE <<>>) \o Tail(Digits)).c = "reject")
\* the run-length classification agrees with the classification of the expanded text
RlPieces == {<<>>, <<48, 120>>, <<97, 98>>, <<97>>, <<103>>, <<32, 97>>, <<97, 10, 98>>, <<48, 88>>, <<48>>, <<200>>}
RlAgrees ==
  \A pre \in RlPieces, pat \in RlPieces, tail \in RlPieces, rep \in 0..3 :
    LET rl == [pre |-> pre, pat |-> pat, rep |-> rep, tail |-> tail]
        a  == HexDecodeClassRL(rl).c
        e  == HexDecodeClass(RlExpand(rl)).c
    IN  (a = "reject" => e = "reject") /\ (a = "open" \/ a = "reject")
ASSUME RlAgrees          \* (a constant statement: evaluated once, not in every state)
\* ... and it is not vacuous: both refusals (a stray character, an odd count) and acceptable texts occur among them
ASSUME \E pre \in RlPieces, pat \in RlPieces, tail \in RlPieces :
         HexDecodeClassRL([pre |-> pre, pat |-> pat, rep |-> 3, tail |-> tail]).c = "reject" /\ ~AllHex(tail)
ASSUME \E pre \in RlPieces, pat \in RlPieces :
         HexDecodeClassRL([pre |-> pre, pat |-> pat, rep |-> 3, tail |-> <<>>]).c = "reject" /\ AllHex(pat) /\ Len(pre) = 2
=============================================================================
