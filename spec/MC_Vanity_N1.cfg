SPECIFICATION Spec
CONSTANT N = 1
INVARIANT PrintedIsGrantedMatch
INVARIANT JudgeSound
INVARIANT ObsTranscriptionAgrees
INVARIANT NoPhraseAfterMainRefusal
INVARIANT AtMostOnePrint
PROPERTY ExitsWhenMessagePending
VIEW ViewNoHist
CHECK_DEADLOCK FALSE
