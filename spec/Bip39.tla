------------------------------- MODULE Bip39 -------------------------------
(***************************************************************************)
(* BIP-39: phrase tokenisation, the length table, the correspondence       *)
(* entropy || checksum  <->  11-bit word indices (declaratively: "the same *)
(* bit string read in groups of 8 and of 11"), checksum, canonical phrase  *)
(* and the PBKDF2 seed.  Phrases are code-point sequences.                 *)
(* Anchors: src/mnemonic.rs, src/mnemonic/language.rs, wordlist.rs.        *)
(***************************************************************************)
EXTENDS Bytes, Prim, Bip39Words

ValidCounts  == {12, 15, 18, 21, 24}
EntBytes(n)  == (n * 4) \div 3          \* ENT / 8  for n in ValidCounts
CsBits(n)    == n \div 3                \* CS = ENT / 32
CountOfEnt(len) == (len * 3) \div 4     \* words for an entropy of len bytes (16,20,24,28,32)
ValidEntLens == {16, 20, 24, 28, 32}

\* ---- tokenisation ----------------------------------------------------------
\* Whitespace: the Unicode White_Space characters (what `str::split_whitespace` separates on): TAB LF VT FF CR
\* SPACE NEL NBSP OGHAM-SPACE EN-QUAD..HAIR-SPACE LINE-SEP PARA-SEP NNBSP MMSP IDEOGRAPHIC-SPACE.  The property
\* says "whitespace-separated ... arbitrary whitespace layout", so every one of them separates words.
StdWs  == {9, 10, 11, 12, 13, 32, 133, 160, 5760, 8232, 8233, 8239, 8287, 12288} \cup (8192..8202)
OpenWs == {}

RECURSIVE TokGo(_, _, _, _, _)
TokGo(cps, ws, i, cur, acc) ==
  IF i > Len(cps) THEN (IF cur = <<>> THEN acc ELSE Append(acc, cur))
  ELSE IF cps[i] \in ws THEN TokGo(cps, ws, i + 1, <<>>, IF cur = <<>> THEN acc ELSE Append(acc, cur))
  ELSE TokGo(cps, ws, i + 1, Append(cur, cps[i]), acc)
Tokens(cps, ws) == TokGo(cps, ws, 1, <<>>, <<>>)
HasOpenWs(cps) == \E i \in 1..Len(cps) : cps[i] \in OpenWs

IsWord(tok)   == CpsToStr(tok) \in DOMAIN WordIndex
IndexOf(tok)  == WordIndex[CpsToStr(tok)]
LowerAscii(tok) == [i \in 1..Len(tok) |-> IF tok[i] >= 65 /\ tok[i] <= 90 THEN tok[i] + 32 ELSE tok[i]]

\* ---- the bit string ----------------------------------------------------------
\* bit p (0-based, big-endian) of the concatenated 11-bit indices ws
WBit(ws, p) == (ws[1 + (p \div 11)] \div (2 ^ (10 - (p % 11)))) % 2
\* bit p of a byte string
BBit(bs, p) == (bs[1 + (p \div 8)] \div (2 ^ (7 - (p % 8)))) % 2

RECURSIVE BitsVal(_, _, _, _)
\* value of `cnt` bits starting at `from` of the bit function f(p)
BitsVal(f(_), from, cnt, acc) ==
  IF cnt = 0 THEN acc ELSE BitsVal(f, from + 1, cnt - 1, 2 * acc + f(from))

EntropyOfIdx(ws) ==
  LET f(p) == WBit(ws, p) IN Mat([k \in 1..EntBytes(Len(ws)) |-> BitsVal(f, 8 * (k - 1), 8, 0)])
ChecksumOfIdx(ws) ==
  LET f(p) == WBit(ws, p) IN BitsVal(f, 8 * EntBytes(Len(ws)), CsBits(Len(ws)), 0)
\* the leading CS bits of SHA-256(entropy)
ChecksumFor(ent) == Sha256(ent)[1] \div (2 ^ (8 - (Len(ent) \div 4)))

AcceptsIdx(ws) == Len(ws) \in ValidCounts /\ ChecksumOfIdx(ws) = ChecksumFor(EntropyOfIdx(ws))

\* entropy (16..32 bytes) -> word indices
IdxOfEntropy(ent) ==
  LET n   == CountOfEnt(Len(ent))
      all == ent \o <<Sha256(ent)[1]>>
      f(p) == BBit(all, p)
  IN  Mat([i \in 1..n |-> BitsVal(f, 11 * (i - 1), 11, 0)])

JoinWords(idx) ==       \* canonical phrase as a string
  LET RECURSIVE go(_)
      go(i) == IF i > Len(idx) THEN "" ELSE (IF i = 1 THEN "" ELSE " ") \o Words[idx[i] + 1] \o go(i + 1)
  IN  go(1)
PhraseOfEntropy(ent) == JoinWords(IdxOfEntropy(ent))

\* ---- parsing a phrase text ----------------------------------------------------
\* [c |-> "accept", phrase, n, idx]  |  [c |-> "reject", why]  |  [c |-> "either", phrase, n, idx]
\* "either": an open class; if the implementation accepts, it must be with this reading.
ParsePhrase(cps) ==
  LET open   == HasOpenWs(cps)
      toks   == Tokens(cps, IF open THEN StdWs \cup OpenWs ELSE StdWs)
      low    == Mat([i \in 1..Len(toks) |-> Mat(LowerAscii(toks[i]))])
      exact  == \A i \in 1..Len(toks) : IsWord(toks[i])
      folded == \A i \in 1..Len(toks) : IsWord(low[i])
  IN
  IF ~(Len(toks) \in ValidCounts) THEN [c |-> "reject", why |-> "word_count"]
  ELSE IF ~folded THEN [c |-> "reject", why |-> "unknown_word"]
  ELSE
  LET idx == Mat([i \in 1..Len(toks) |-> IndexOf(low[i])]) IN
  IF ~AcceptsIdx(idx) THEN [c |-> "reject", why |-> "checksum"]
  ELSE [c |-> IF exact /\ ~open THEN "accept" ELSE "either",
        phrase |-> JoinWords(idx), n |-> Len(idx), idx |-> idx]

\* ---- seed ----------------------------------------------------------------------
\* UTF-8 encoder on code points (TLA+; the phrase and salt bytes are hdwallet's own choice)
Utf8Of(cp) ==
  IF cp < 128 THEN <<cp>>
  ELSE IF cp < 2048 THEN <<192 + (cp \div 64), 128 + (cp % 64)>>
  ELSE IF cp < 65536 THEN <<224 + (cp \div 4096), 128 + ((cp \div 64) % 64), 128 + (cp % 64)>>
  ELSE <<240 + (cp \div 262144), 128 + ((cp \div 4096) % 64), 128 + ((cp \div 64) % 64), 128 + (cp % 64)>>
Utf8(cps) == Concat([i \in 1..Len(cps) |-> Utf8Of(cps[i])])

MnemonicSalt == <<109, 110, 101, 109, 111, 110, 105, 99>>      \* "mnemonic"
\* phrase: canonical phrase string; pass: code points
SeedOf(phrase, pass) ==
  Pbkdf2HmacSha512(Utf8(StrToCps(phrase)), Utf8(Nfkd(MnemonicSalt \o pass)), 2048, 64)
=============================================================================
