-------------------------------- MODULE Vanity --------------------------------
(***************************************************************************)
(* `hdwallet new`: mnemonic generation against an entropy ENVIRONMENT that *)
(* may refuse, and the multi-threaded vanity search.                       *)
(*                                                                         *)
(*   main:    m0 := generate (one entropy request);                        *)
(*            no vanity prefix: print m0                                   *)
(*            N = 0: run the worker loop inline on the main thread         *)
(*            N > 0: spawn N workers, each with candidate m0; wait for the *)
(*                   FIRST message on the channel; Ok(p): print p;         *)
(*                   Err: fail; then exit (which kills the workers)        *)
(*   worker:  loop  if Matches(candidate) then send Ok(candidate); stop    *)
(*                  else request entropy:  Grant(b): candidate := phrase(b)*)
(*                                          Refuse:  send Err; stop        *)
(*                                                                         *)
(* The environment's answers (Grant / Refuse) are the observable events:   *)
(* the LD_PRELOAD shim logs them in a total order with the thread id.      *)
(* Worker sends and the main thread's receive are silent steps.            *)
(*                                                                         *)
(* The module is parametric in the data: CONSTANT operators Matches and    *)
(* Supported; threads are arbitrary values (model values / OS thread ids). *)
(* State s = [main, cand, st, chan, out]:                                  *)
(*   main  "init" | "wait" | "inline" | "printed" | "failed"               *)
(*   cand  function thread -> current candidate (threads seen so far)      *)
(*   st    function thread -> "run" | "sent" | "refused"                   *)
(*   chan  the channel (sequence of messages [ok, p])                      *)
(* Anchors: src/cmd/new.rs (run), src/mnemonic.rs (random), src/rand.rs.   *)
(***************************************************************************)
EXTENDS Naturals, Sequences, FiniteSets, TLC

CONSTANTS Matches(_, _),      \* Matches(cfg, phrase): the candidate's account has the vanity prefix
          Supported(_)        \* Supported(cfg): the requested length is one of 12, 15, 18, 21, 24

\* cfg = [vanity |-> BOOLEAN, threads |-> N, ...data used by Matches...]
Init(cfg) == [main |-> "init", cand |-> <<>>, st |-> <<>>, chan |-> <<>>, out |-> "", mainT |-> "none", late |-> 0]

Threads(s) == DOMAIN s.cand

\* ---- environment answers (observable) ---------------------------------------------
\* the FIRST request of the process is the main thread's generation of m0
MainGrant(cfg, s, t, p) ==
  IF ~cfg.vanity THEN [s EXCEPT !.main = "printed", !.out = p, !.mainT = t]
  ELSE IF cfg.threads = 0 THEN [s EXCEPT !.main = "inline", !.cand = (t :> p), !.st = (t :> "run"), !.mainT = t]
  ELSE [s EXCEPT !.main = "wait", !.cand = (t :> p), !.st = (t :> "spawned"), !.mainT = t]
MainRefuse(cfg, s, t) == [s EXCEPT !.main = "failed", !.mainT = t]

\* a worker thread is first seen when it makes a request: its candidate then is m0
M0(s) == s.cand[s.mainT]
Known(s, t) == t \in Threads(s) /\ t # s.mainT
CandOf(s, t) == IF t \in Threads(s) /\ (t # s.mainT \/ s.main = "inline") THEN s.cand[t] ELSE M0(s)
StOf(s, t)   == IF t \in Threads(s) /\ (t # s.mainT \/ s.main = "inline") THEN s.st[t] ELSE "run"
\* guard of a worker request: the worker is running and its candidate does not match
MayRequest(cfg, s, t) ==
  /\ s.main \in {"wait", "inline"}
  /\ (s.main = "inline" => t = s.mainT)
  /\ (s.main = "wait" => t # s.mainT /\ Cardinality((Threads(s) \ {s.mainT}) \cup {t}) <= cfg.threads)
  /\ StOf(s, t) = "run"
  /\ ~Matches(cfg, CandOf(s, t))
\* late: answers given to workers after some worker was refused (its Err message is then pending)
Refused(s) == \E u \in Threads(s) : s.st[u] = "refused"
WorkerGrant(cfg, s, t, p) == [s EXCEPT !.cand = (t :> p) @@ @, !.st = (t :> "run") @@ @, !.late = IF Refused(s) THEN @ + 1 ELSE @]
WorkerRefuse(cfg, s, t)   == [s EXCEPT !.cand = (t :> CandOf(s, t)) @@ @, !.st = (t :> "refused") @@ @, !.late = IF Refused(s) THEN @ + 1 ELSE @]

\* ---- the exit of the process (observable) ------------------------------------------
\* Printed(p) is possible iff some thread's current candidate is p and matches (its Ok message may be
\* the first on the channel), or there is no vanity search and p = m0.
\* Failed is possible iff the length is unsupported, or the main generation was refused, or some
\* worker was refused (its Err message may be the first on the channel).
\* With N > 0 workers that never requested still hold m0.
MayPrint(cfg, s, p) ==
  \/ s.main = "printed" /\ s.out = p
  \/ /\ s.main \in {"wait", "inline"} /\ Matches(cfg, p)
     /\ \/ \E t \in Threads(s) : (t # s.mainT \/ s.main = "inline") /\ s.cand[t] = p /\ s.st[t] = "run"
        \/ s.main = "wait" /\ p = M0(s) /\ Cardinality(Threads(s) \ {s.mainT}) < cfg.threads
MayFail(cfg, s) ==
  \/ s.main = "failed"
  \/ s.main \in {"wait", "inline"} /\ \E t \in Threads(s) : (t # s.mainT \/ s.main = "inline") /\ s.st[t] = "refused"
\* the process may still be running (no exit observed within the time limit) only while no message can be
\* pending: nobody is refused and nobody holds a matching candidate
\* Liveness, observed: under weak fairness a pending message leads to exit (MC_Vanity: ExitsWhenMessagePending).
\* In a recorded run the shim delays every request after an injected refusal by far more than a channel
\* send/receive takes, so a conforming process answers at most the requests already in flight plus one delayed
\* request per thread before it exits: 2 per thread (+2).  More than that means the search went on although an
\* entropy failure had been reported.
PromptExit(cfg, s) == s.late <= 2 * cfg.threads + 2
MustHaveExited(cfg, s) ==
  \/ s.main \in {"printed", "failed"}
  \/ \E p \in {s.cand[t] : t \in Threads(s)} : MayPrint(cfg, s, p)
  \/ MayFail(cfg, s)
=============================================================================
