SPECIFICATION Spec
CONSTANT Table <- TableStd
INVARIANT LengthTable
INVARIANT NoAcceptOutsideStandard
INVARIANT NeverOutOfBounds
INVARIANT UnpackCorrect
INVARIANT PackCorrect
CHECK_DEADLOCK FALSE
