----------------------------- MODULE MC_Eip712 -----------------------------
(***************************************************************************)
(* The dependency work-list that encode_type is designed as, against the   *)
(* declarative closure Deps of Eip712.tla, for ALL reference tables with   *)
(* up to 3 struct types and up to MaxRefs reference members each (self,    *)
(* mutual, shared and repeated references, in every member order) and      *)
(* every primary type.  The array form of a reference is irrelevant to the *)
(* closure and is abstracted.                                              *)
(*                                                                         *)
(*   work := references of the primary type                                *)
(*   loop: name := pop(work)                                               *)
(*         if name = primary or name in seen: skip                         *)
(*         else seen := seen + name; push references of name               *)
(*   emit primary, then seen in name order                                 *)
(*                                                                         *)
(* CONSTANT Variant selects the machine: "spec" (above) must satisfy the   *)
(* invariants; "early_exit" (`pop().filter(..)` ends the loop at the first *)
(* already-seen name) and "primary_included" (no primary exclusion) are    *)
(* the defects of the pinned tree and must FAIL (self-test: not vacuous).  *)
(***************************************************************************)
EXTENDS Naturals, Sequences, FiniteSets, TLC, IOUtils

CONSTANT Variant
Thorough == "VERIF_TIER" \in DOMAIN IOEnv /\ IOEnv.VERIF_TIER = "thorough"
\* bounds: 3 types x <= 2 references (quick), 3 x 3 (thorough); MC_TYPES / MC_REFS override (4 types x 2 in the thorough tier)
NT == IF "MC_TYPES" \in DOMAIN IOEnv THEN atoi(IOEnv.MC_TYPES) ELSE 3
T == 1..NT
MaxRefs == IF "MC_REFS" \in DOMAIN IOEnv THEN atoi(IOEnv.MC_REFS) ELSE IF Thorough THEN 3 ELSE 2
RefLists == UNION {[1..k -> T] : k \in 0..MaxRefs}

VARIABLES tab, prim, work, seen, pc
vars == <<tab, prim, work, seen, pc>>

SetOf(s) == {s[i] : i \in 1..Len(s)}

\* declarative closure
RECURSIVE Reach(_, _, _)
Reach(tb, frontier, acc) ==
  IF frontier = {} THEN acc
  ELSE Reach(tb, (UNION {SetOf(tb[x]) : x \in frontier}) \ (acc \cup frontier), acc \cup frontier)
DepsOf(tb, p) == Reach(tb, SetOf(tb[p]), {}) \ {p}

Init == /\ tab \in [T -> RefLists] /\ prim \in T
        /\ work = tab[prim] /\ seen = {} /\ pc = "loop"

Pop ==
  /\ pc = "loop" /\ work # <<>>
  /\ LET name == work[Len(work)]
         rest == SubSeq(work, 1, Len(work) - 1)
         skip == name \in seen \/ (Variant # "primary_included" /\ name = prim)
     IN  IF skip /\ Variant = "early_exit" /\ name \in seen
           THEN pc' = "done" /\ work' = rest /\ UNCHANGED seen          \* the filter yields None: loop ends
         ELSE IF skip THEN work' = rest /\ UNCHANGED <<seen, pc>>
         ELSE seen' = seen \cup {name} /\ work' = rest \o tab[name] /\ UNCHANGED pc
  /\ UNCHANGED <<tab, prim>>
Finish == pc = "loop" /\ work = <<>> /\ pc' = "done" /\ UNCHANGED <<tab, prim, work, seen>>
Next == Pop \/ Finish
Spec == Init /\ [][Next]_vars /\ WF_vars(Next)

ClosureCorrect == pc = "done" => seen = DepsOf(tab, prim)
PrimaryNeverRepeated == ~(prim \in seen)
\* the loop is bounded: every name is expanded at most once, so work never exceeds
\* (number of types + 1) * MaxRefs entries
Bounded == Len(work) <= (Cardinality(T) + 1) * MaxRefs
Terminates == <>(pc = "done")
=============================================================================
