------------------------------- MODULE HexCodec -------------------------------
(***************************************************************************)
(* The `hex` subcommand.  Encode: "0x" lower-case digits and a newline.    *)
(* Decode: input must be UTF-8; whitespace anywhere is ignored; one        *)
(* optional "0x" prefix; an even number of hex digits of either case.      *)
(* Result [c |-> "accept"|"reject"|"either", v].  Open: "0X" prefix and    *)
(* Unicode whitespace beyond ASCII.  Anchors: src/cmd/hex.rs, src/cmd.rs.  *)
(***************************************************************************)
EXTENDS Bytes, Prim

HexEncodeOut(b) == <<48, 120>> \o HexLower(b) \o <<10>>

AsciiWs == {9, 10, 11, 12, 13, 32}
\* UTF-8 validity is decided by the primitive converter: decoding and re-encoding is the identity
IsUtf8(bs) == StrToUtf8(Utf8ToStr(bs)) = bs
HasOtherWs(bs) ==
  \E i \in 1..Len(bs) : bs[i] >= 128 /\ LET cps == StrToCps(Utf8ToStr(bs)) IN
     \E k \in 1..Len(cps) : cps[k] \in ({133, 160, 5760, 8232, 8233, 8239, 8287, 12288} \cup (8192..8202))

HexDecodeClass(bs) ==
  IF ~IsUtf8(bs) THEN [c |-> "reject", v |-> <<>>]
  ELSE
  LET t    == SelectSeq(bs, LAMBDA ch : ch \notin AsciiWs)
      pre  == Len(t) >= 2 /\ t[1] = 48 /\ t[2] \in {120, 88}
      body == IF pre THEN SubSeq(t, 3, Len(t)) ELSE t
      open == (pre /\ t[2] = 88) \/ HasOtherWs(bs)
  IN  IF open THEN [c |-> "open", v |-> <<>>]
      ELSE IF ~AllHex(body) \/ Len(body) % 2 = 1 THEN [c |-> "reject", v |-> <<>>]
      ELSE [c |-> "accept", v |-> HexPairs(body)]
=============================================================================
