------------------------------- MODULE HexCodec -------------------------------
(***************************************************************************)
(* The `hex` subcommand.  Encode: "0x" lower-case digits and a newline.    *)
(* Decode: input must be UTF-8; whitespace anywhere is ignored; one        *)
(* optional "0x" prefix; an even number of hex digits of either case.      *)
(* Result [c |-> "accept"|"reject"|"open", v].  Open: the "0X" prefix.      *)
(* Anchors: src/cmd/hex.rs, src/cmd.rs.                                    *)
(***************************************************************************)
EXTENDS Bytes, Prim

HexEncodeOut(b) == <<48, 120>> \o HexLower(b) \o <<10>>

\* whitespace ignored anywhere: the Unicode White_Space characters (what `char::is_whitespace` tests)
AsciiWs == {9, 10, 11, 12, 13, 32}
OtherWsCps == {133, 160, 5760, 8232, 8233, 8239, 8287, 12288} \cup (8192..8202)
\* UTF-8 validity is decided by the primitive converter: decoding and re-encoding is the identity
IsUtf8(bs) == StrToUtf8(Utf8ToStr(bs)) = bs
\* drop every whitespace character; works on code points so that multi-byte spaces are removed whole
StripWs(bs) ==
  IF \A i \in 1..Len(bs) : bs[i] < 128 THEN SelectSeq(bs, LAMBDA ch : ch \notin AsciiWs)
  ELSE StrToUtf8(CpsToStr(SelectSeq(StrToCps(Utf8ToStr(bs)), LAMBDA cp : cp \notin AsciiWs \cup OtherWsCps)))

HexDecodeClass(bs) ==
  IF ~IsUtf8(bs) THEN [c |-> "reject", v |-> <<>>]
  ELSE
  LET t    == StripWs(bs)
      pre  == Len(t) >= 2 /\ t[1] = 48 /\ t[2] \in {120, 88}
      body == IF pre THEN SubSeq(t, 3, Len(t)) ELSE t
  IN  IF pre /\ t[2] = 88 THEN [c |-> "open", v |-> <<>>]                      \* "0X": an open spelling
      ELSE IF ~AllHex(body) \/ Len(body) % 2 = 1 THEN [c |-> "reject", v |-> <<>>]
      ELSE [c |-> "accept", v |-> HexPairs(body)]

\* ---- run-length inputs -------------------------------------------------------------------------
\* rl = [pre, pat, rep, tail]: the text  pre \o pat \o ... \o pat (rep times) \o tail  (all ASCII), too long to be a TLC
\* sequence (tens of megabytes).  Whitespace removal and the hexadecimal test are element-wise and the digit count is
\* additive, so the class of the text follows from its pieces.  Only REFUSAL is decided (an acceptable text is "open":
\* its decoding is not computed).  MC_HexCodec checks the agreement with HexDecodeClass on expanded small instances.
RlExpand(rl) == rl.pre \o Concat([i \in 1..rl.rep |-> rl.pat]) \o rl.tail
HexDecodeClassRL(rl) ==
  LET ascii(b) == \A i \in 1..Len(b) : b[i] < 128
      strip(b) == SelectSeq(b, LAMBDA ch : ch \notin AsciiWs)
      sp == strip(rl.pre)  pt == strip(rl.pat)  tl == strip(rl.tail)
      pre  == Len(sp) >= 2 /\ sp[1] = 48 /\ sp[2] \in {120, 88}
      body0 == IF pre THEN SubSeq(sp, 3, Len(sp)) ELSE sp
  IN  IF ~(ascii(rl.pre) /\ ascii(rl.pat) /\ ascii(rl.tail)) \/ Len(sp) < 2 \/ rl.rep < 1 \/ (pre /\ sp[2] = 88) THEN [c |-> "open"]
      ELSE IF ~(AllHex(body0) /\ AllHex(pt) /\ AllHex(tl)) \/ (Len(body0) + rl.rep * Len(pt) + Len(tl)) % 2 = 1 THEN [c |-> "reject"]
      ELSE [c |-> "open"]
=============================================================================
