------------------------------- MODULE GenTx -------------------------------
(***************************************************************************)
(* Workload families for transaction documents (used by Gen_C06, Gen_C07,  *)
(* Gen_C11, Gen_C13).  Every family is a SEQUENCE of workload items built  *)
(* from the spec's own constants (JSON key names, kinds, layouts); random  *)
(* choices come from Prng keyed by VERIF_SEED.                              *)
(***************************************************************************)
EXTENDS DocAst, Tx, IOUtils, TLC

Seed     == IF "VERIF_SEED" \in DOMAIN IOEnv THEN IOEnv.VERIF_SEED ELSE "0"
Thorough == "VERIF_TIER" \in DOMAIN IOEnv /\ IOEnv.VERIF_TIER = "thorough"
K(tag, nums) == Key(Seed \o "/" \o tag, nums)

Absent == [k |-> "absent"]

AllKeys == <<"chainId", "nonce", "gasPrice", "maxPriorityFeePerGas", "maxFeePerGas", "gas",
             "to", "value", "data", "accessList">>
KeySet  == {AllKeys[i] : i \in 1..Len(AllKeys)}

\* f: function KeySet -> node | Absent
MkDoc(f) == NObj(SelectSeq([i \in 1..Len(AllKeys) |-> <<AllKeys[i], f[AllKeys[i]]>>],
                           LAMBDA p : p[2].k # "absent"))

NumericOf(kind) ==
  IF kind = "legacy" THEN {"nonce", "gasPrice", "gas", "value"}
  ELSE IF kind = "2930" THEN {"chainId", "nonce", "gasPrice", "gas", "value"}
  ELSE {"chainId", "nonce", "maxPriorityFeePerGas", "maxFeePerGas", "gas", "value"}
NumericSeqOf(kind) ==
  IF kind = "legacy" THEN <<"nonce", "gasPrice", "gas", "value", "chainId">>
  ELSE IF kind = "2930" THEN <<"chainId", "nonce", "gasPrice", "gas", "value">>
  ELSE <<"chainId", "nonce", "maxPriorityFeePerGas", "maxFeePerGas", "gas", "value">>
Kinds == <<"legacy", "2930", "1559">>

\* a random unsigned integer of random byte width 0..32, distinct per (r, key)
RandUint(r, key) ==
  LET w == PrngNat(K("w/" \o key, r), 33) IN BnNorm(Prng(K("u/" \o key, r), w))
RandAddr(r, j)  == Prng(K("addr", r \o <<j>>), 20)
RandSlot(r, j)  == Prng(K("slot", r \o <<j>>), 32)

AlNode(al) ==   \* al: << [addr, slots] >>
  NArr([i \in 1..Len(al) |->
    NArr(<<NHexBytes(al[i].addr), NArr([j \in 1..Len(al[i].slots) |-> NHexBytes(al[i].slots[j])])>>)])

\* access list with the given numbers of slots per entry
AlShape(r, shape) ==
  [i \in 1..Len(shape) |-> [addr |-> RandAddr(r, i), slots |-> [j \in 1..shape[i] |-> RandSlot(r, 100 * i + j)]]]

\* a complete random document of the kind
Default(kind, r) ==
  [key \in KeySet |->
     IF key \in NumericOf(kind) THEN NHexQty(RandUint(r, key))
     ELSE IF key = "chainId" THEN NHexQty(RandUint(r, key))          \* legacy with chain id
     ELSE IF key = "to" THEN NHexBytes(RandAddr(r, 0))
     ELSE IF key = "data" THEN NHexBytes(Prng(K("data", r), PrngNat(K("dlen", r), 70)))
     ELSE IF key = "accessList" /\ kind # "legacy"
       THEN AlNode(AlShape(r, [i \in 1..PrngNat(K("aln", r), 3) |-> PrngNat(K("als", r \o <<i>>), 3)]))
     ELSE Absent]

SignKeys == <<"0000000000000000000000000000000000000000000000000000000000000001",
              "4f3edf983ac636a65a842ce7c78d9aa706d3b113bce9c46f30d7d21715b23b1d",
              "fffffffffffffffffffffffffffffffebaaedce6af48a03bbfd25e8cd0364140",
              BytesToHex(Prng(K("signkey", <<>>), 32))>>

Item(fam, doc, j) ==
  [i |-> 0, op |-> "tx.sign", fam |-> fam,
   in |-> [doc |-> doc, key |-> SignKeys[1 + (j % Len(SignKeys))]]]

Bit(mask, b) == (mask \div (2 ^ b)) % 2 = 1

\* ---- A: presence lattice of the dispatch keys x recipient mode -------------
PresenceKeys == <<"gasPrice", "maxPriorityFeePerGas", "maxFeePerGas", "accessList", "chainId">>
NPresence == 96
PresenceAt(j) ==
    LET mask == (j - 1) \div 3
        tm   == (j - 1) % 3
        on(key) == \E b \in 1..5 : PresenceKeys[b] = key /\ Bit(mask, b - 1)
        kind == IF on("maxPriorityFeePerGas") \/ on("maxFeePerGas") THEN "1559"
                ELSE IF on("accessList") THEN "2930" ELSE "legacy"
        base == Default("1559", <<1, j>>)      \* has every key
        f == [key \in KeySet |->
               IF key \in {PresenceKeys[b] : b \in 1..5} THEN (IF on(key) THEN
                     (IF key = "gasPrice" THEN NHexQty(RandUint(<<1, j>>, key)) ELSE base[key]) ELSE Absent)
               ELSE IF key = "to" THEN (IF tm = 0 THEN Absent ELSE IF tm = 1 THEN NNull ELSE base[key])
               ELSE base[key]]
    IN  Item("presence", MkDoc(f), j)

\* ---- A2: malformed quantities inside the presence lattice -------------------------------------
\* for every combination of present dispatch keys: a malformed literal in EACH present numeric dispatch key alone, in
\* ALL of them at once, and in all fee-market keys at once (the other keys stay well-formed): which keys are present
\* decides the kind, whatever their values look like, and a malformed value of a present key is refused
BadQty == <<NNum("30.5"), NStr(""), NStr("0xg"), NStr("0x1" \o Utf8ToStr(Rep(64, 48))), NNum("1e80"), NStr("1.0"), NBool(TRUE), NArr(<<>>)>>
NumDispatch == <<"gasPrice", "maxPriorityFeePerGas", "maxFeePerGas", "chainId">>
\* mode 1..4: that key alone; 5: all present numeric dispatch keys; 6: the fee-market keys
NBadPresence == 32 * 6 * (IF Thorough THEN Len(BadQty) ELSE 2)
BadPresenceAt(j) ==
    LET mask == (j - 1) % 32
        mode == 1 + (((j - 1) \div 32) % 6)
        bad  == BadQty[1 + (((j - 1) \div 192 + mask + mode) % Len(BadQty))]
        on(key) == \E b \in 1..5 : PresenceKeys[b] = key /\ Bit(mask, b - 1)
        hit(key) == IF mode <= 4 THEN key = NumDispatch[mode]
                    ELSE IF mode = 5 THEN key \in {NumDispatch[i] : i \in 1..4}
                    ELSE key \in {"maxPriorityFeePerGas", "maxFeePerGas"}
        base == Default("1559", <<13, j % 7>>)
        f == [key \in KeySet |->
               IF key \in {PresenceKeys[b] : b \in 1..5} THEN
                 (IF ~on(key) THEN Absent ELSE IF hit(key) THEN bad
                  ELSE IF key = "gasPrice" THEN NHexQty(RandUint(<<13, j % 7>>, key)) ELSE base[key])
               ELSE base[key]]
    IN  Item("presence_malformed", MkDoc(f), j)

\* ---- A3: members that are NOT transaction fields -------------------------------------------------
\* names other tools use for the same or a related thing (JSON-RPC transaction objects, other libraries, other case
\* conventions), each with a value that would change the result if it were used in the place of the real field: a
\* transaction is made of the specified members only
ForeignKeys == <<"input", "from", "hash", "type", "gasLimit", "gas_limit", "gas_price", "GasPrice", "gasprice", "chain_id", "chainID", "ChainId",
                 "networkId", "v", "r", "s", "yParity", "Nonce", "NONCE", "Data", "calldata", "To", "recipient", "amount", "Value", "access_list",
                 "accesslist", "maxFeePerBlobGas", "blobVersionedHashes", "max_fee_per_gas", "maxPriorityFee", "tip", "nonce ", " nonce", "", "__proto__">>
ForeignVals == <<NStr("0xa9059cbb"), NStr("0x1fcff193d804dc56ad6123fcf9098f8b53520566"), NNum("7"), NStr("0x2"), NNull, NArr(<<>>), NBool(TRUE)>>
NForeign == Len(ForeignKeys) * 3
ForeignAt(j) ==
  LET name == ForeignKeys[1 + ((j - 1) % Len(ForeignKeys))]
      kind == Kinds[1 + ((j - 1) \div Len(ForeignKeys))]
      val  == ForeignVals[1 + ((j * 5 + (j - 1) \div Len(ForeignKeys)) % Len(ForeignVals))]
      d    == MkDoc(Default(kind, <<14, j % 9>>))
      \* before the real members, after them, or in the middle
      at   == IF j % 3 = 0 THEN 0 ELSE IF j % 3 = 1 THEN Len(d.v) ELSE Len(d.v) \div 2
  IN  Item("foreign_members", NObj(SubSeq(d.v, 1, at) \o << <<name, val>> >> \o SubSeq(d.v, at + 1, Len(d.v))), j)

\* ---- A4: REPEATED keys --------------------------------------------------------------------
\* every member of a well-formed document once more, before or after the first occurrence, with another well-formed value,
\* a negative, a fractional, an oversized, an empty, a null value: the result is refused or is the transaction of the first
\* or of the last occurrence - never a third thing
DupVals == <<NHexQty(<<9>>), NNum("-1"), NNum("-1.0"), NNum("1.5"), NStr(""), NNull, NStr("0x1" \o Utf8ToStr(Rep(64, 48))), NNum("7"), NStr("-0x1"), NArr(<<>>)>>
NDup == 3 * 10 * Len(DupVals)
DupAt(j) ==
  LET kind == Kinds[1 + ((j - 1) % 3)]
      d    == MkDoc(Default(kind, <<15, j % 5>>))
      m    == 1 + (((j - 1) \div 3) % Len(d.v))                   \* the member that is repeated
      v    == DupVals[1 + (((j - 1) \div 30) % Len(DupVals))]
      pair == <<d.v[m][1], v>>
      doc  == IF j % 2 = 0 THEN NObj(d.v \o <<pair>>) ELSE NObj(<<pair>> \o d.v)
  IN  Item("repeated_keys", doc, j)

\* ---- B: boundary values in every numeric slot of every kind ---------------
Boundary == <<<<>>, <<1>>, <<127>>, <<128>>, <<255>>, <<1, 0>>, Rep(8, 255), <<1>> \o Zeros(8),
              <<128>> \o Zeros(31), Rep(32, 255)>>
NBoundaryOf(kind) == Len(NumericSeqOf(kind)) * Len(Boundary)
NBoundary == NBoundaryOf("legacy") + NBoundaryOf("2930") + NBoundaryOf("1559")
BoundaryAt(g) ==
  LET kind == IF g <= NBoundaryOf("legacy") THEN "legacy"
              ELSE IF g <= NBoundaryOf("legacy") + NBoundaryOf("2930") THEN "2930" ELSE "1559"
      j    == IF kind = "legacy" THEN g
              ELSE IF kind = "2930" THEN g - NBoundaryOf("legacy")
              ELSE g - NBoundaryOf("legacy") - NBoundaryOf("2930")
      nf   == NumericSeqOf(kind)
      key  == nf[1 + ((j - 1) \div Len(Boundary))]
      val  == Boundary[1 + ((j - 1) % Len(Boundary))]
      base == Default(kind, <<2, g>>)
  IN  Item("boundary", MkDoc([base EXCEPT ![key] = NHexQty(val)]), g)

\* ---- C: calldata lengths ---------------------------------------------------
DataLens == <<0, 1, 1, 2, 55, 56, 57, 255, 256, 1024>>
NData == 3 * Len(DataLens)
DataAt(j) ==
    LET kind == Kinds[1 + ((j - 1) \div Len(DataLens))]
        d    == 1 + ((j - 1) % Len(DataLens))
        len  == DataLens[d]
        \* the two one-byte cases: below and above 0x80
        bytes == IF d = 2 THEN <<PrngNat(K("d1", <<j>>), 128)>>
                 ELSE IF d = 3 THEN <<128 + PrngNat(K("d2", <<j>>), 128)>>
                 ELSE Prng(K("dd", <<j>>), len)
        base == Default(kind, <<3, j>>)
    IN  Item("data", MkDoc([base EXCEPT !["data"] = NHexBytes(bytes)]), j)

\* ---- D: access list shapes ---------------------------------------------------
AlShapes == <<<<>>, <<0>>, <<1>>, <<2, 0>>, <<3, 3, 3>>, <<1, 0, 2, 0>>, Rep(60, 1)>>
NAccessList == 2 * Len(AlShapes)
AccessListAt(j) ==
    LET kind == Kinds[2 + ((j - 1) \div Len(AlShapes))]
        sh   == AlShapes[1 + ((j - 1) % Len(AlShapes))]
        base == Default(kind, <<4, j>>)
    IN  Item("accesslist", MkDoc([base EXCEPT !["accessList"] = AlNode(AlShape(<<4, j>>, sh))]), j)

\* ---- D2: access lists as WORDS over a small alphabet of entries ----------------
\* every sequence of at most 3 entries drawn from 6 entry values built from two addresses and two storage keys: this
\* contains every pattern of repetition (the same entry twice in a row, twice with another one in between, the same
\* key twice in one entry, the same address with different keys, keys in both orders).  An access list is a
\* SEQUENCE: repetitions and order are part of the value that is signed.
AlA == Prng(Key("alw/a", <<1>>), 20)
AlB == Prng(Key("alw/b", <<1>>), 20)
AlK1 == Prng(Key("alw/k", <<1>>), 32)
AlK2 == Prng(Key("alw/k", <<2>>), 32)
AlSigma == <<[addr |-> AlA, slots |-> <<>>], [addr |-> AlA, slots |-> <<AlK1>>], [addr |-> AlB, slots |-> <<AlK1>>],
             [addr |-> AlA, slots |-> <<AlK1, AlK1>>], [addr |-> AlA, slots |-> <<AlK1, AlK2>>], [addr |-> AlA, slots |-> <<AlK2, AlK1>>]>>
NAlWords == 2 * (6 + 36 + 216)
AlWordAt(j) ==
  LET kind == Kinds[2 + ((j - 1) % 2)]
      w    == (j - 1) \div 2                                   \* 0..257
      len  == IF w < 6 THEN 1 ELSE IF w < 42 THEN 2 ELSE 3
      k    == IF w < 6 THEN w ELSE IF w < 42 THEN w - 6 ELSE w - 42
      al   == [i \in 1..len |-> AlSigma[1 + ((k \div (6 ^ (len - i))) % 6)]]
      base == Default(kind, <<12, j % 7>>)
      \* the recipient is one of the listed addresses, absent, or unrelated: the access list is data, whatever `to` is
      to   == IF (w + j) % 4 = 0 THEN NHexBytes(AlA) ELSE IF (w + j) % 4 = 1 THEN NHexBytes(AlB) ELSE IF (w + j) % 4 = 2 THEN Absent ELSE base["to"]
  IN  Item("accesslist_words", MkDoc([base EXCEPT !["accessList"] = AlNode(al), !["to"] = to]), j)

\* ---- E: chain ids x nonces (to see both parities with a chain id) ----------
ChainIds == <<<<>>, <<1>>, <<255>>, <<1, 0, 0, 0, 0>>, Rep(8, 255), Prng(K("bigchain", <<>>), 31),
              \* largest c with 35 + 2c + 1 < 2^256 : (2^256 - 36) / 2 - ... = 2^255 - 18
              BnSub(BnPow2(255), <<18>>)>>
NChain == 3 * Len(ChainIds) * 4
ChainAt(j) ==
    LET kind == Kinds[1 + ((j - 1) \div (Len(ChainIds) * 4))]
        c    == ChainIds[1 + (((j - 1) \div 4) % Len(ChainIds))]
        base == Default(kind, <<5, j>>)
    IN  Item("chain", MkDoc([base EXCEPT !["chainId"] = NHexQty(c),
                                           !["nonce"] = NHexQty(BnFromNat(j % 4))]), j)

\* ---- E2: chain ids at which v = 35 + 2c + yParity crosses an integer width ---------------------
\* c = 2^(w-1) - 18 is the largest chain id whose v (with odd parity) still fits w bits; w = 8, 16, 32, 64, 128, 256,
\* its two neighbours, four nonces each (both parities occur).  v is an integer, not a machine word.
VWidths == <<8, 16, 32, 64, 128, 256>>
VEdge(k) == LET w == VWidths[1 + (k \div 3)] IN BnAdd(BnSub(BnPow2(w - 1), <<19>>), BnFromNat(k % 3))       \* k in 0..17
NVWidth == 18 * 4
VWidthAt(j) ==
  LET base == Default("legacy", <<6, j % 3>>)
  IN  Item("v_width", MkDoc([base EXCEPT !["chainId"] = NHexQty(VEdge((j - 1) \div 4)), !["nonce"] = NHexQty(BnFromNat(j % 4))]), j)

\* ---- S: spec-directed search for signatures whose r or s has a leading zero byte ----
\* (integers shorter than 32 bytes in the signature tail: about one signature in 128 each).
\* The generator evaluates the specification (Parse, SigningDigest, Sign) on candidate nonces and
\* keeps the first whose r (target 0) or s (target 1) starts with a zero byte.
ShortKey == HexToBytes(SignKeys[2])
ShortDoc(f, nonce) == MkDoc([f EXCEPT !["nonce"] = NHexQty(BnFromNat(nonce))])
ShortHit(f, target, nonce) ==
  LET sig == Sign(ShortKey, SigningDigest(Parse(ShortDoc(f, nonce)).tx))
  IN  IF target = 0 THEN sig.r[1] = 0 ELSE sig.s[1] = 0
\* some nonce in the window whose signature has the short integer (TLC picks the first in order; a window
\* of 4000 candidates misses with probability < 1e-13)
FindShort(f, target, from) == ShortDoc(f, CHOOSE k \in from..(from + 4000) : ShortHit(f, target, k))
NShortSig == 3 * 2 * 2
ShortSigAt(j) ==
  LET kind   == Kinds[1 + ((j - 1) % 3)]
      target == ((j - 1) \div 3) % 2
      base   == Default(kind, <<12, j>>)
      f      == IF kind = "legacy" /\ j > 6 THEN [base EXCEPT !["chainId"] = Absent] ELSE base
  IN  [i |-> 0, op |-> "tx.sign", fam |-> "shortsig",
       in |-> [doc |-> FindShort(f, target, 5000 * j), key |-> SignKeys[2]]]

\* ---- W: Transaction::encode with signatures whose r and s have EVERY byte width 1..32 -------------------
\* (r of w bytes, s of 33 - w bytes; values all-FF / one followed by zeros; n - 1 for the full width)
WidthScalar(w, hi) ==
  IF w = 32 THEN BnFixed(BnSub(CurveN, <<1>>), 32)
  ELSE PadLeft(IF hi THEN Rep(w, 255) ELSE <<1>> \o Zeros(w - 1), 32)
NSigWidth == 32 * 3 * 2
SigWidthAt(j) ==
  LET w    == 1 + ((j - 1) % 32)
      kind == Kinds[1 + (((j - 1) \div 32) % 3)]
      hi   == (j - 1) \div 96 = 1
      sig  == [r |-> WidthScalar(w, hi), s |-> WidthScalar(33 - w, ~hi), par |-> w % 2]
      text == <<48, 120>> \o HexLower(sig.r) \o HexLower(sig.s) \o HexLower(<<27 + sig.par>>)
  IN  [i |-> 0, op |-> "tx.encode", fam |-> "sigwidth",
       in |-> [doc |-> MkDoc(Default(kind, <<13, j>>)), sigtext |-> Utf8ToStr(text)]]

\* ---- F: random documents --------------------------------------------------
RandomAt(j) ==
    LET kind == Kinds[1 + PrngNat(K("rk", <<j>>), 3)]
        base == Default(kind, <<6, j>>)
        \* legacy: chain id present in two of three
        f == IF kind = "legacy" /\ PrngNat(K("rc", <<j>>), 3) = 0 THEN [base EXCEPT !["chainId"] = Absent] ELSE base
        g == IF PrngNat(K("rt", <<j>>), 4) = 0 THEN [f EXCEPT !["to"] = Absent] ELSE f
    IN  Item("random", MkDoc(g), j)
=============================================================================
