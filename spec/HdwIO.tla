------------------------------- MODULE HdwIO -------------------------------
(* Trace / workload I/O; Java in overrides/HdwIO.java.  No property logic. *)
LOCAL Missing == CHOOSE x \in {} : TRUE
Emit(chan, v)  == Missing   \* append v as a JSON line to $HDW_OUT.<chan>; TRUE
HexToBytes(s)  == Missing   \* "0x00ff" or "00ff" |-> <<0, 255>>
BytesToHex(b)  == Missing   \* <<0, 255>> |-> "00ff"
=============================================================================
