--------------------------------- MODULE Tx ---------------------------------
(***************************************************************************)
(* Ethereum transactions: JSON document -> kind dispatch -> field          *)
(* denotation -> the three RLP layouts -> signing payload / signed         *)
(* payload.  Anchors: src/transaction.rs (dispatch), legacy.rs,            *)
(* eip2930.rs, eip1559.rs, accesslist.rs, account/signature.rs (v).        *)
(***************************************************************************)
EXTENDS Bytes, Prim, Numbers, Rlp, Ecdsa

\* ---- document access ------------------------------------------------------
ObjKeys(node)     == {node.v[i][1] : i \in 1..Len(node.v)}
HasKey(node, key) == key \in ObjKeys(node)
\* last occurrence wins (duplicates are an open class, see DupKeys)
ObjGet(node, key) ==
  LET S == {i \in 1..Len(node.v) : node.v[i][1] = key}
  IN  node.v[CHOOSE i \in S : \A j \in S : j <= i][2]
DupKeys(node) == \E i, j \in 1..Len(node.v) : i < j /\ node.v[i][1] = node.v[j][1]
Present(node, key) == HasKey(node, key) /\ ObjGet(node, key).k # "null"

\* ---- kind dispatch --------------------------------------------------------
KindOfKeys(keys) ==
  IF "maxPriorityFeePerGas" \in keys \/ "maxFeePerGas" \in keys THEN "1559"
  ELSE IF "accessList" \in keys THEN "2930"
  ELSE "legacy"

NumericFields(kind) ==
  IF kind = "legacy" THEN <<"nonce", "gasPrice", "gas", "value">>
  ELSE IF kind = "2930" THEN <<"chainId", "nonce", "gasPrice", "gas", "value">>
  ELSE <<"chainId", "nonce", "maxPriorityFeePerGas", "maxFeePerGas", "gas", "value">>

\* ---- field classes: [c |-> "accept"|"reject"|"either"|"open", v] ----------
Reject == [c |-> "reject", v |-> <<>>, why |-> "malformed"]
Open   == [c |-> "open",   v |-> <<>>, why |-> ""]
Accepted(v) == [c |-> "accept", v |-> v, why |-> ""]

ClassAddress(node) ==
  IF node.k # "str" THEN Reject
  ELSE LET cs == StrToUtf8(node.v) IN
    IF Len(cs) = 42 /\ cs[1] = 48 /\ cs[2] = 120 /\ AllHex(SubSeq(cs, 3, 42)) THEN
      LET body  == SubSeq(cs, 3, 42)
          bytes == HexPairs(body)
          lower == \A i \in 1..40 : ~IsUpperHexCode(body[i])
      IN  [c |-> IF lower \/ cs = Eip55(bytes) THEN "accept" ELSE "either", v |-> bytes, why |-> ""]
    \* open spellings: no prefix; doubled prefix (a quirk of the address crate)
    ELSE IF Len(cs) = 40 /\ AllHex(cs) THEN [c |-> "either", v |-> HexPairs(cs), why |-> ""]
    ELSE IF Len(cs) = 44 /\ SubSeq(cs, 1, 4) = <<48, 120, 48, 120>> /\ AllHex(SubSeq(cs, 5, 44))
      THEN [c |-> "either", v |-> HexPairs(SubSeq(cs, 5, 44)), why |-> ""]
    ELSE Reject

\* required numeric field: absent -> open; present (null included) -> by denotation
ClassRequiredUint(doc, key) ==
  IF ~HasKey(doc, key) THEN Open ELSE
  LET u == ClassUint(ObjGet(doc, key), 256) IN [c |-> u.c, v |-> u.v, why |-> u.why]

\* optional: absent / null -> none (<<>>), else <<value>>
ClassOptionalUint(doc, key) ==
  IF ~Present(doc, key) THEN Accepted(<<>>) ELSE
  LET u == ClassUint(ObjGet(doc, key), 256) IN [c |-> u.c, v |-> <<u.v>>, why |-> u.why]

ClassTo(doc) ==
  IF ~Present(doc, "to") THEN Accepted(<<>>) ELSE
  LET a == ClassAddress(ObjGet(doc, "to")) IN [c |-> a.c, v |-> <<a.v>>, why |-> "bad_address"]

ClassData(doc) ==
  IF ~HasKey(doc, "data") THEN Open ELSE
  LET b == ClassBytes(ObjGet(doc, "data")) IN [c |-> b.c, v |-> b.v, why |-> "bad_bytes"]

Worst(cs) ==      \* cs: a set of class names
  IF "reject" \in cs THEN "reject"
  ELSE IF "open" \in cs THEN "open"
  ELSE IF "either" \in cs THEN "either"
  ELSE "accept"

\* access list: array of [address, [slot...]] pairs
ClassAccessEntry(node) ==
  IF node.k = "obj" THEN Open                  \* the JSON-RPC object form is not specified here
  ELSE IF node.k # "arr" \/ Len(node.v) # 2 THEN Reject
  ELSE LET a == ClassAddress(node.v[1])
           sl == node.v[2]
       IN  IF sl.k # "arr" THEN Reject
           ELSE LET scs == Mat([i \in 1..Len(sl.v) |-> ClassFixedBytes(sl.v[i], 32)])
                IN  [c |-> Worst({a.c} \cup {scs[i].c : i \in 1..Len(scs)}),
                     v |-> [addr |-> a.v, slots |-> Mat([i \in 1..Len(scs) |-> scs[i].v])], why |-> "bad_access_list"]

ClassAccessListNode(node) ==
  IF node.k # "arr" THEN Reject
  ELSE LET es == Mat([i \in 1..Len(node.v) |-> ClassAccessEntry(node.v[i])])
       IN  [c |-> Worst({es[i].c : i \in 1..Len(es)}), v |-> Mat([i \in 1..Len(es) |-> es[i].v]), why |-> "bad_access_list"]

ClassAccessList(doc, kind) ==
  IF ~HasKey(doc, "accessList") THEN Accepted(<<>>)                          \* only possible for 1559
  ELSE IF ObjGet(doc, "accessList").k = "null" /\ kind = "1559" THEN Open
  ELSE ClassAccessListNode(ObjGet(doc, "accessList"))

\* ---- document -> transaction ----------------------------------------------
\* [c, tx]; tx is meaningful unless c = "reject" / "open"
\* the two usual readings of an object with repeated keys: the first / the last occurrence of a key counts
KeepFirst(doc) == [doc EXCEPT !.v = SelectSeq([i \in 1..Len(doc.v) |-> <<i, doc.v[i]>>],
                                               LAMBDA p : \A q \in 1..(p[1] - 1) : doc.v[q][1] # p[2][1])]
KeepLast(doc)  == [doc EXCEPT !.v = SelectSeq([i \in 1..Len(doc.v) |-> <<i, doc.v[i]>>],
                                               LAMBDA p : \A q \in (p[1] + 1)..Len(doc.v) : doc.v[q][1] # p[2][1])]
Unpair(doc) == [doc EXCEPT !.v = [i \in 1..Len(doc.v) |-> doc.v[i][2]]]
Parse(doc) ==
  IF doc.k # "obj" THEN [c |-> "reject", tx |-> <<>>, why |-> "not_an_object"]
  ELSE IF DupKeys(doc) THEN [c |-> "open", tx |-> <<>>, why |-> ""]
  ELSE
  LET kind == KindOfKeys(ObjKeys(doc))
      nf   == NumericFields(kind)
      req(key) == IF \E i \in 1..Len(nf) : nf[i] = key THEN ClassRequiredUint(doc, key)
                  ELSE Accepted(<<>>)
      chain == IF kind = "legacy" THEN ClassOptionalUint(doc, "chainId")
               ELSE LET r == req("chainId") IN [c |-> r.c, v |-> <<r.v>>, why |-> r.why]
      nonce == req("nonce")         gasPrice == req("gasPrice")
      maxPrio == req("maxPriorityFeePerGas")    maxFee == req("maxFeePerGas")
      gas   == req("gas")           value == req("value")
      to    == ClassTo(doc)         data == ClassData(doc)
      al    == IF kind = "legacy" THEN Accepted(<<>>) ELSE ClassAccessList(doc, kind)
      all   == <<chain, nonce, gasPrice, maxPrio, maxFee, gas, value, to, data, al>>
      c     == Worst({all[i].c : i \in 1..Len(all)})
  IN  [c |-> c,
       \* why: the reason of the first refused field
       why |-> IF c = "reject" THEN all[CHOOSE i \in 1..Len(all) : all[i].c = "reject" /\ \A q \in 1..(i - 1) : all[q].c # "reject"].why ELSE "",
       tx |-> [kind |-> kind, chainId |-> chain.v, nonce |-> nonce.v, gasPrice |-> gasPrice.v,
               maxPrio |-> maxPrio.v, maxFee |-> maxFee.v, gas |-> gas.v, to |-> to.v,
               value |-> value.v, data |-> data.v, al |-> al.v]]

\* ---- layouts ----------------------------------------------------------------
RlpU(bn) == RlpB(BnNorm(bn))
ToItem(tx) == IF tx.to = <<>> THEN RlpB(<<>>) ELSE RlpB(tx.to[1])
AccessListItem(al) ==
  RlpL(Mat([i \in 1..Len(al) |->
       RlpL(<<RlpB(al[i].addr), RlpL(Mat([j \in 1..Len(al[i].slots) |-> RlpB(al[i].slots[j])]))>>)]))

BodyItems(tx) ==
  IF tx.kind = "legacy" THEN
    <<RlpU(tx.nonce), RlpU(tx.gasPrice), RlpU(tx.gas), ToItem(tx), RlpU(tx.value), RlpB(tx.data)>>
  ELSE IF tx.kind = "2930" THEN
    <<RlpU(tx.chainId[1]), RlpU(tx.nonce), RlpU(tx.gasPrice), RlpU(tx.gas), ToItem(tx), RlpU(tx.value),
      RlpB(tx.data), AccessListItem(tx.al)>>
  ELSE
    <<RlpU(tx.chainId[1]), RlpU(tx.nonce), RlpU(tx.maxPrio), RlpU(tx.maxFee), RlpU(tx.gas), ToItem(tx),
      RlpU(tx.value), RlpB(tx.data), AccessListItem(tx.al)>>

TypeByte(tx) == IF tx.kind = "legacy" THEN <<>> ELSE IF tx.kind = "2930" THEN <<1>> ELSE <<2>>

\* EIP-155 v as an unbounded natural: 27 + par, or 35 + 2c + par
VOf(par, chainOpt) ==
  IF chainOpt = <<>> THEN <<27 + par>>
  ELSE BnAdd(BnAdd(chainOpt[1], chainOpt[1]), <<35 + par>>)
VFits256(chainOpt) == BnBitLen(VOf(1, chainOpt)) <= 256

UnsignedItems(tx) ==
  IF tx.kind = "legacy" /\ tx.chainId # <<>>
  THEN BodyItems(tx) \o <<RlpU(tx.chainId[1]), RlpB(<<>>), RlpB(<<>>)>>
  ELSE BodyItems(tx)

SignedItems(tx, sig) ==
  IF tx.kind = "legacy"
  THEN BodyItems(tx) \o <<RlpU(VOf(sig.par, tx.chainId)), RlpU(sig.r), RlpU(sig.s)>>
  ELSE BodyItems(tx) \o <<RlpU(<<sig.par>>), RlpU(sig.r), RlpU(sig.s)>>

SigningPayload(tx)     == TypeByte(tx) \o Enc(RlpL(UnsignedItems(tx)))
SigningDigest(tx)      == Keccak256(SigningPayload(tx))
SignedPayload(tx, sig) == TypeByte(tx) \o Enc(RlpL(SignedItems(tx, sig)))

\* What an independent strict decoder must find in emitted bytes `bs`.
DecodesTo(bs, tx, sig) ==
  LET tb   == TypeByte(tx)
      body == IF tb = <<>> THEN bs ELSE Tail(bs)
      d    == StrictDecode(body)
  IN  /\ (tb # <<>> => Len(bs) > 0 /\ bs[1] = tb[1])
      /\ (tb = <<>>  => Len(bs) > 0 /\ bs[1] >= 192)
      /\ d.ok
      /\ d.item = RlpL(SignedItems(tx, sig))
=============================================================================
