----------------------------- MODULE MC_HdPath -----------------------------
(***************************************************************************)
(* The path grammar of HdPath.tla over EVERY string up to length MaxLen    *)
(* over the alphabet {m / ' 0 1 9 - . + SPACE}:                            *)
(*  - Classify is total and yields exactly one of accept / reject / either *)
(*  - an accepted string is the canonical print of its own parse, and the  *)
(*    print of any accepted/open parse is itself accepted with that parse  *)
(*  - accept implies: root "m/", every index below 2^31                    *)
(*  - a string containing '-' or '.' is never accepted or open             *)
(***************************************************************************)
EXTENDS HdPath, TLC, IOUtils

Thorough == "VERIF_TIER" \in DOMAIN IOEnv /\ IOEnv.VERIF_TIER = "thorough"
MaxLen == IF Thorough THEN 6 ELSE 5
Alphabet == {109, 47, 39, 48, 49, 57, 45, 46, 43, 32}

VARIABLE s
Init == s = <<>>
Next == Len(s) < MaxLen /\ \E c \in Alphabet : s' = Append(s, c)
Spec == Init /\ [][Next]_s

Total == Classify(s).c \in {"accept", "reject", "either"}
Canonical ==
  LET p == Classify(s) IN
  /\ (p.c = "accept" => PrintPath(p.comps) = s)
  /\ (p.c \in {"accept", "either"} =>
        /\ \A i \in 1..Len(p.comps) : BnLt(p.comps[i].idx, Two31)
        /\ (p.comps # <<>> => LET q == Classify(PrintPath(p.comps)) IN q.c = "accept" /\ q.comps = p.comps))
  /\ (p.c = "accept" => Len(s) >= 3 /\ s[1] = 109 /\ s[2] = 47)
NoSignOrFraction == (\E i \in 1..Len(s) : s[i] \in {45, 46}) => Classify(s).c = "reject"

ASSUME Classify(<<109, 47>> \o DecCodes(<<2,1,4,7,4,8,3,6,4,7>>) \o <<39>>).c = "accept"
ASSUME Classify(<<109, 47>> \o DecCodes(<<2,1,4,7,4,8,3,6,4,8>>) \o <<39>>).c = "reject"
ASSUME Classify(<<109, 47>> \o DecCodes(<<2,1,4,7,4,8,3,6,4,8>>)).why = "index_ge_2^31"
ASSUME Classify(<<109, 47>> \o DecCodes(<<4,2,9,4,9,6,7,2,9,6>>)).c = "reject"
ASSUME PrintPath(ForIndex(<<7>>)) = <<109,47,52,52,39,47,54,48,39,47,48,39,47,48,47,55>>
=============================================================================
