SPECIFICATION Spec
INVARIANT DecimalOk
CHECK_DEADLOCK FALSE
