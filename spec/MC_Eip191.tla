----------------------------- MODULE MC_Eip191 -----------------------------
(* DecimalAscii(n): no leading zero, digits only, and reading it back gives n, *)
(* for every n in 0..Nmax; the prefix is the 26 standard bytes.                *)
EXTENDS Eip191, TLC, IOUtils
Thorough == "VERIF_TIER" \in DOMAIN IOEnv /\ IOEnv.VERIF_TIER = "thorough"
Nmax == IF Thorough THEN 1000001 ELSE 20000
VARIABLE k
\* blocks of 1000 lengths per state so that workers share the sweep
Init == k \in 0..(Nmax \div 1000)
Next == UNCHANGED k
Spec == Init /\ [][Next]_k
RECURSIVE Atoi(_, _, _)
Atoi(cs, i, acc) == IF i > Len(cs) THEN acc ELSE Atoi(cs, i + 1, acc * 10 + (cs[i] - 48))
DecimalOk ==
  \A n \in (1000 * k)..(1000 * k + 999) :
    LET d == DecimalAscii(n) IN AllDigit(d) /\ (Len(d) = 1 \/ d[1] # 48) /\ Atoi(d, 1, 0) = n
ASSUME Len(Eip191Prefix) = 26 /\ Eip191Prefix[1] = 25 /\ Eip191Prefix[26] = 10
ASSUME Utf8ToStr(Tail(Eip191Prefix)) = "Ethereum Signed Message:\n"
ASSUME DecimalAscii(0) = <<48>> /\ DecimalAscii(12) = <<49, 50>> /\ DecimalAscii(1000000) = <<49, 48, 48, 48, 48, 48, 48>>
=============================================================================
