SPECIFICATION GenSpec
INVARIANT GenEmit
CHECK_DEADLOCK FALSE
