------------------------------ MODULE Gen_C07 ------------------------------
(***************************************************************************)
(* Workload for C07 (canonical RLP): transactions whose calldata has every *)
(* length 0..Lmax and every single byte value, numeric fields of every     *)
(* byte width (minimum and maximum), access lists whose payloads straddle  *)
(* the 55/56, 255/256 and 65535/65536 boundaries, calldata around 2^16     *)
(* (and 2^24 in the thorough tier); plus, through the optional hooks, a    *)
(* direct sweep of the private rlp::{len, bytes, uint, list}.              *)
(***************************************************************************)
EXTENDS GenTx

Lmax == IF Thorough THEN 1100 ELSE 300
DataLenAt(j) ==        \* j in 1..Lmax+1 : length j-1, position dependent content, kinds rotate
  LET len  == j - 1
      kind == Kinds[1 + (j % 3)]
      base == Default(kind, <<7, j>>)
      bytes == [i \in 1..len |-> (i * 7 + len) % 256]
  IN  Item("datalen", MkDoc([base EXCEPT !["data"] = NHexBytes(bytes)]), j)

ByteValAt(j) ==        \* j in 1..256 : the single byte j-1
  LET base == Default(Kinds[1 + (j % 3)], <<8, j>>)
  IN  Item("byteval", MkDoc([base EXCEPT !["data"] = NHexBytes(<<j - 1>>)]), j)

\* width w in 1..32, minimum / maximum, in a rotating numeric slot of a rotating kind
WidthAt(j) ==          \* j in 1..(32 * 2 * 3)
  LET w    == 1 + ((j - 1) % 32)
      hi   == ((j - 1) \div 32) % 2 = 1
      kind == Kinds[1 + ((j - 1) \div 64)]
      nf   == NumericSeqOf(kind)
      key  == nf[1 + (w % Len(nf))]
      val  == IF hi THEN Rep(w, 255) ELSE <<1>> \o Zeros(w - 1)
      base == Default(kind, <<9, j>>)
  IN  Item("width", MkDoc([base EXCEPT ![key] = NHexQty(val)]), j)

\* access lists: <<entries, slots per entry>>
AlGrid == <<<<1, 0>>, <<1, 1>>, <<1, 2>>, <<2, 0>>, <<2, 1>>, <<3, 0>>, <<1, 6>>, <<1, 7>>, <<1, 8>>,
            <<11, 0>>, <<12, 0>>, <<5, 1>>, <<4, 1>>, <<1, 60>>, <<3, 7>>,
            <<1, 1985>>, <<1, 1986>>, <<2850, 0>>, <<2849, 0>>>>
\* (the four shapes around 2^16 were thorough-only until round H: seed C07-access-list-sizes-precomputed... lives in [2^16, 2^17))
NAlGrid == Len(AlGrid)
AlGridAt(j) ==
  LET kind == Kinds[2 + (j % 2)]
      g    == AlGrid[j]
      base == Default(kind, <<10, j>>)
  IN  Item("algrid", MkDoc([base EXCEPT !["accessList"] = AlNode(AlShape(<<10, j>>, Rep(g[1], g[2])))]), j)

\* calldata around 2^16 (and 2^24): run-length "hexstr" nodes, expanded by the judge
BigLens == <<65534, 65535, 65536, 65537, 65538, 16777214, 16777215, 16777216, 16777217>>
NBig == IF Thorough THEN Len(BigLens) ELSE 3
BigAt(j) ==
  LET len  == IF Thorough THEN BigLens[j] ELSE BigLens[j + 1]
      kind == Kinds[1 + (j % 3)]
      base == Default(kind, <<11, j>>)
  IN  Item("bigdata", MkDoc([base EXCEPT !["data"] = [k |-> "hexstr", v |-> [rep |-> len, pat |-> "a7"]]]), j)

\* ---- hook sweeps (skipped by the executor when built without hooks) --------
HItem(op, in) == [i |-> 0, op |-> op, fam |-> "hook", in |-> in]
DecStr(bn) == Utf8ToStr(DecCodes(BnToDec(bn)))
LenMax == IF Thorough THEN 131072 ELSE 3000
\* 0..LenMax, then windows around 2^16, 2^24, 2^32, 2^40, 2^48, 2^56, 2^63
Windows == <<16, 24, 32, 40, 48, 56, 63>>
NLen == 2 * (LenMax + 1 + Len(Windows) * 7)
LenAt(j) ==
  LET off == IF j % 2 = 0 THEN 128 ELSE 192
      q   == (j - 1) \div 2
      nb  == IF q <= LenMax THEN BnFromNat(q)
             ELSE LET r == q - LenMax - 1
                      p == BnPow2(Windows[1 + (r \div 7)])
                      d == r % 7
                  IN  IF d < 3 THEN BnSub(p, <<3 - d>>) ELSE BnAdd(p, <<d - 3>>)
  IN  HItem("rlp.len", [len |-> DecStr(nb), off |-> off])

HookStrings == <<<<>>, <<0>>, <<1>>, <<127>>, <<128>>, <<255>>, <<0, 0>>, <<127, 0>>, <<128, 128>>>>
NBytes == Len(HookStrings) + 256 + 70
BytesAt(j) ==
  LET b == IF j <= Len(HookStrings) THEN HookStrings[j]
           ELSE IF j <= Len(HookStrings) + 256 THEN <<j - Len(HookStrings) - 1>>
           ELSE LET m == j - Len(HookStrings) - 256 IN        \* lengths 0..60, then boundaries
                LET len == IF m <= 61 THEN m - 1
                           ELSE <<254, 255, 256, 257, 1023, 1024, 65535, 65536, 65537>>[m - 61]
                IN  [i \in 1..len |-> (i * 13 + len) % 256]
  IN  HItem("rlp.bytes", [data |-> BytesToHex(b)])

NUint == 32 * 3 + 1
UintAt(j) ==
  LET u == IF j = NUint THEN <<>>
           ELSE LET w == 1 + ((j - 1) % 32)  m == (j - 1) \div 32
                IN  IF m = 0 THEN <<1>> \o Zeros(w - 1)
                    ELSE IF m = 1 THEN Rep(w, 255)
                    ELSE BnNorm(Prng(K("hu", <<j>>), w))
  IN  HItem("rlp.uint", [value |-> BytesToHex(PadLeft(u, 32))])

NList == 40
ListAt(j) ==
  LET cnt   == j % 7
      items == [i \in 1..cnt |-> BytesToHex(Prng(K("hl", <<j, i>>), PrngNat(K("hn", <<j, i>>), 30)))]
      \* every tenth list is long enough for the long form
      big   == IF j % 10 = 0 THEN <<BytesToHex(Rep(50 + j, 1))>> ELSE <<>>
  IN  HItem("rlp.list", [items |-> items \o big])

O1 == Lmax + 1
O2 == O1 + 256
O3 == O2 + 192
O4 == O3 + NAlGrid
O5 == O4 + NBig
O6 == O5 + NLen
O7 == O6 + NBytes
O8 == O7 + NUint
O9 == O8 + NList
Count == O9 + NAlWords
ItemAt(g) ==
  IF g <= O1 THEN DataLenAt(g)
  ELSE IF g <= O2 THEN ByteValAt(g - O1)
  ELSE IF g <= O3 THEN WidthAt(g - O2)
  ELSE IF g <= O4 THEN AlGridAt(g - O3)
  ELSE IF g <= O5 THEN BigAt(g - O4)
  ELSE IF g <= O6 THEN LenAt(g - O5)
  ELSE IF g <= O7 THEN BytesAt(g - O6)
  ELSE IF g <= O8 THEN UintAt(g - O7)
  ELSE IF g <= O9 THEN ListAt(g - O8)
  ELSE AlWordAt(g - O9)
Histories == IF "VERIF_TIER" \in DOMAIN IOEnv /\ IOEnv.VERIF_TIER = "thorough" THEN 300 ELSE 40
VARIABLE n
INSTANCE GenBase
=============================================================================
