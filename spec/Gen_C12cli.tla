----------------------------- MODULE Gen_C12cli -----------------------------
(***************************************************************************)
(* Workload for C12 (real binary, entropy observed and refused through the *)
(* LD_PRELOAD shim): `new -n L` for every L in 0..40 with working entropy  *)
(* and with the first request refused; vanity searches with a refusal at   *)
(* request k and with every request from k on refused, for several thread  *)
(* counts; independent invocations (phrases explained by their own logs    *)
(* and pairwise distinct); new -> address sessions (parse-back).           *)
(***************************************************************************)
EXTENDS GenNew
LenAt(j) ==        \* j in 1..82
  LET L == (j - 1) % 41 IN NItem(IF j <= 41 THEN "lengths" ELSE "lengths_refused", New(ToString(L), "", "", "", "", ""), IF j <= 41 THEN <<>> ELSE <<0>>, -1)
FailPoints == <<0, 1, 2, 5, 17>>
ThreadsF == <<"0", "1", "4">>
NFaults == Len(FailPoints) * Len(ThreadsF) * 2 * (IF Thorough THEN 4 ELSE 1)
FaultAt(j) ==
  LET k   == FailPoints[1 + ((j - 1) % Len(FailPoints))]
      thr == ThreadsF[1 + (((j - 1) \div Len(FailPoints)) % Len(ThreadsF))]
      all == (((j - 1) \div (Len(FailPoints) * Len(ThreadsF))) % 2) = 1
  IN  \* a two-digit prefix so that the search is still running when the refusal comes
      NItem(IF all THEN "fault_from" ELSE "fault_at", New("", "0x5b", "", "", "", thr), IF all THEN <<>> ELSE <<k>>, IF all THEN k ELSE -1)
NFresh == IF Thorough THEN 120 ELSE 30
FreshAt(j) == NSItem("fresh", "fresh", New(<<"12", "15", "18", "21", "24">>[1 + (j % 5)], "", "", "", "", ""), <<"fresh_phrase">>)
\* new -> address --mnemonic $1
NBack == IF Thorough THEN 50 ELSE 10
BackAt(g, j) ==
  LET t == (j - 1) \div 2 IN
  IF j % 2 = 1 THEN NSItem("parse_back", "pb" \o ToString(t), New(<<"12", "15", "18", "21", "24">>[1 + (t % 5)], IF t % 2 = 0 THEN "" ELSE "0x7", "", "", "", "2"), <<>>)
  ELSE LET ref == [ref |-> g - 1, what |-> "stdout_trim"]
           cmd == [sub |-> "address", what |-> "", flags |-> <<>>, sigtext |-> "", chan |-> "none", inp |-> [hex |-> ""],
                   acct |-> [mnemonic |-> [src |-> "env", v |-> ref], password |-> [src |-> "none", v |-> ""],
                             index |-> [src |-> "none", v |-> ""], path |-> [src |-> "none", v |-> ""]]]
       IN  [i |-> 0, op |-> "cli", fam |-> "parse_back", sid |-> "pb" \o ToString(t),
            in |-> [cmd |-> cmd, argv |-> <<"address">>, env |-> [MNEMONIC |-> ref], timeout_ms |-> 60000]]
\* every kind of failure the source may report, persistent from request k on: plain generation, inline and threaded search
ErrnosCli == <<5, 4, 11, 38, 14, 1, 22, 12, 0>>
NErrno == Len(ErrnosCli) * 3
ErrnoAt(j) ==
  LET e == ErrnosCli[1 + ((j - 1) % Len(ErrnosCli))]
      m == (j - 1) \div Len(ErrnosCli)
      c == IF m = 0 THEN New("12", "", "", "", "", "") ELSE New("", "0x5b", "", "", "", IF m = 1 THEN "0" ELSE "2")
      it == NItem("fault_errno", c, <<>>, IF m = 0 THEN 0 ELSE 1)
  IN  [it EXCEPT !.in.shim = @ @@ [errno |-> e]]
\* requested lengths that alias a supported one under truncation (see GenMn!AliasLenText), and other big numerals
AliasPowsCli == <<8, 16, 31, 32, 59, 61, 62, 63, 64, 70>>
NAliasCli == 5 * Len(AliasPowsCli) * 3
AliasCliAt(j) ==
  LET L == <<12, 15, 18, 21, 24>>[1 + ((j - 1) % 5)]
      w == AliasPowsCli[1 + (((j - 1) \div 5) % Len(AliasPowsCli))]
      k == 1 + ((j - 1) \div (5 * Len(AliasPowsCli)))
      t == Utf8ToStr(DecCodes(BnToDec(BnMulAddSmall(BnPow2(w), k, L))))
  IN  NItem("alias_lengths", New(t, "", "", "", "", ""), <<>>, -1)
O1 == 82
O2 == O1 + NFaults
O3 == O2 + NFresh
O4 == O3 + 2 * NBack
O5 == O4 + NErrno
Count == O5 + NAliasCli
ItemAt(g) ==
  IF g <= O1 THEN LenAt(g)
  ELSE IF g <= O2 THEN FaultAt(g - O1)
  ELSE IF g <= O3 THEN FreshAt(g - O2)
  ELSE IF g <= O4 THEN BackAt(g, g - O3)
  ELSE IF g <= O5 THEN ErrnoAt(g - O4)
  ELSE AliasCliAt(g - O5)
Histories == 0
VARIABLE n
INSTANCE GenBase
=============================================================================
