----------------------------- MODULE MC_Vanity -----------------------------
(***************************************************************************)
(* All interleavings of the vanity search: main thread, N workers, the     *)
(* channel, an entropy environment that grants any candidate or refuses,   *)
(* with Refuse and the worker's Send(Err), and Match and Send(Ok), as      *)
(* SEPARATE steps so that TLC explores the windows in which another        *)
(* worker's message overtakes.  Candidates are abstract (1..K), a chosen   *)
(* subset matches.                                                         *)
(*                                                                         *)
(* `obs` is the observer's state: it is advanced only by the environment's *)
(* answers (what the LD_PRELOAD shim logs) through the operators of        *)
(* Vanity.tla - exactly the fold the trace judge performs.                 *)
(*                                                                         *)
(*  PrintedIsGrantedMatch  a printed phrase matches and was granted        *)
(*  JudgeSound     whatever exit the real machine takes, the judge's       *)
(*                 closed form (MayPrint / MayFail on obs) allows it, and  *)
(*                 every request it makes passes the judge's guard         *)
(*                 (MayRequest): the judge raises no false alarm           *)
(*  NoPhraseAfterMainRefusal   if m0's generation is refused nothing is    *)
(*                 printed                                                 *)
(*  ExitsWhenMessagePending    (liveness, weak fairness) once a message is *)
(*                 in the channel the process exits                        *)
(***************************************************************************)
EXTENDS Naturals, Sequences, FiniteSets, TLC, IOUtils

Thorough == "VERIF_TIER" \in DOMAIN IOEnv /\ IOEnv.VERIF_TIER = "thorough"
CONSTANT N                     \* worker threads (0 = inline)
K == 3                         \* candidates 1..K
MaxReq == IF "VERIF_VANITY_REQ" \in DOMAIN IOEnv THEN atoi(IOEnv.VERIF_VANITY_REQ) ELSE IF Thorough THEN 5 ELSE 4
Workers == 1..N
MainT == 0

MatchesOp(cfg, p) == p \in cfg.matching
SupportedOp(cfg) == TRUE
V == INSTANCE Vanity WITH Matches <- MatchesOp, Supported <- SupportedOp

VARIABLES cfg, main, wst, cand, chan, out, obs, nreq, granted, guardOk,
          hist       \* history: the environment's answers so far, [t, ok, p] (what the shim would log); the generator
                     \* Gen_C18sched turns each complete behaviour into a schedule for the real binary
vars == <<cfg, main, wst, cand, chan, out, obs, nreq, granted, guardOk, hist>>
\* the model checks hide the history variable (it multiplies states without adding behaviour)
ViewNoHist == <<cfg, main, wst, cand, chan, out, obs, nreq, granted, guardOk>>
Ans(t, ok, p) == [t |-> t, ok |-> ok, p |-> p]

Init ==
  /\ cfg \in {[vanity |-> TRUE, threads |-> N, matching |-> m] : m \in SUBSET (1..K)}
  /\ main = "init" /\ wst = [w \in Workers |-> "idle"] /\ cand = [t \in {MainT} \cup Workers |-> 0]
  /\ chan = <<>> /\ out = 0 /\ obs = V!Init(cfg) /\ nreq = 0 /\ granted = {} /\ guardOk = TRUE /\ hist = <<>>

\* main generates m0: the environment grants or refuses
MainGrant(p) ==
  /\ main = "init" /\ nreq < MaxReq
  /\ cand' = [t \in {MainT} \cup Workers |-> p]                  \* every worker starts from m0
  /\ main' = IF N = 0 THEN "inline_run" ELSE "wait"
  /\ wst' = [w \in Workers |-> "run"]
  /\ obs' = V!MainGrant(cfg, obs, MainT, p) /\ nreq' = nreq + 1 /\ granted' = granted \cup {p}
  /\ hist' = Append(hist, Ans(MainT, TRUE, p))
  /\ UNCHANGED <<cfg, chan, out, guardOk>>
MainRefuse ==
  /\ main = "init" /\ main' = "failed" /\ obs' = V!MainRefuse(cfg, obs, MainT)
  /\ hist' = Append(hist, Ans(MainT, FALSE, 0))
  /\ UNCHANGED <<cfg, wst, cand, chan, out, nreq, granted, guardOk>>

\* N = 0: the worker loop inline on the main thread
InlineCheck ==
  /\ main = "inline_run"
  /\ IF MatchesOp(cfg, cand[MainT]) THEN main' = "printed" /\ out' = cand[MainT] ELSE main' = "inline_req" /\ UNCHANGED out
  /\ UNCHANGED <<cfg, wst, cand, chan, obs, nreq, granted, guardOk, hist>>
InlineGrant(p) ==
  /\ main = "inline_req" /\ nreq < MaxReq
  /\ guardOk' = (guardOk /\ V!MayRequest(cfg, obs, MainT))
  /\ cand' = [cand EXCEPT ![MainT] = p] /\ main' = "inline_run"
  /\ obs' = V!WorkerGrant(cfg, obs, MainT, p) /\ nreq' = nreq + 1 /\ granted' = granted \cup {p}
  /\ hist' = Append(hist, Ans(MainT, TRUE, p))
  /\ UNCHANGED <<cfg, wst, chan, out>>
InlineRefuse ==
  /\ main = "inline_req"
  /\ guardOk' = (guardOk /\ V!MayRequest(cfg, obs, MainT))
  /\ main' = "failed" /\ obs' = V!WorkerRefuse(cfg, obs, MainT)
  /\ hist' = Append(hist, Ans(MainT, FALSE, 0))
  /\ UNCHANGED <<cfg, wst, cand, chan, out, nreq, granted>>

\* workers
Alive == main = "wait"                  \* exit of the main thread kills the workers
WorkerCheck(w) ==
  /\ Alive /\ wst[w] = "run"
  /\ wst' = [wst EXCEPT ![w] = IF MatchesOp(cfg, cand[w]) THEN "matched" ELSE "req"]
  /\ UNCHANGED <<cfg, main, cand, chan, out, obs, nreq, granted, guardOk, hist>>
WorkerSendOk(w) ==
  /\ Alive /\ wst[w] = "matched"
  /\ chan' = Append(chan, [ok |-> TRUE, p |-> cand[w]]) /\ wst' = [wst EXCEPT ![w] = "sent"]
  /\ UNCHANGED <<cfg, main, cand, out, obs, nreq, granted, guardOk, hist>>
EnvGrant(w, p) ==
  /\ Alive /\ wst[w] = "req" /\ nreq < MaxReq
  /\ guardOk' = (guardOk /\ V!MayRequest(cfg, obs, w))
  /\ cand' = [cand EXCEPT ![w] = p] /\ wst' = [wst EXCEPT ![w] = "run"]
  /\ obs' = V!WorkerGrant(cfg, obs, w, p) /\ nreq' = nreq + 1 /\ granted' = granted \cup {p}
  /\ hist' = Append(hist, Ans(w, TRUE, p))
  /\ UNCHANGED <<cfg, main, chan, out>>
EnvRefuse(w) ==
  /\ Alive /\ wst[w] = "req"
  /\ guardOk' = (guardOk /\ V!MayRequest(cfg, obs, w))
  /\ wst' = [wst EXCEPT ![w] = "refused"] /\ obs' = V!WorkerRefuse(cfg, obs, w)
  /\ hist' = Append(hist, Ans(w, FALSE, 0))
  /\ UNCHANGED <<cfg, main, cand, chan, out, nreq, granted>>
WorkerSendErr(w) ==
  /\ Alive /\ wst[w] = "refused"
  /\ chan' = Append(chan, [ok |-> FALSE, p |-> 0]) /\ wst' = [wst EXCEPT ![w] = "sent"]
  /\ UNCHANGED <<cfg, main, cand, out, obs, nreq, granted, guardOk, hist>>
\* the main thread takes the FIRST message
MainRecv ==
  /\ main = "wait" /\ chan # <<>>
  /\ IF Head(chan).ok THEN main' = "printed" /\ out' = Head(chan).p ELSE main' = "failed" /\ UNCHANGED out
  /\ UNCHANGED <<cfg, wst, cand, chan, obs, nreq, granted, guardOk, hist>>

Next ==
  \/ \E p \in 1..K : MainGrant(p) \/ InlineGrant(p) \/ \E w \in Workers : EnvGrant(w, p)
  \/ MainRefuse \/ InlineCheck \/ InlineRefuse \/ MainRecv
  \/ \E w \in Workers : WorkerCheck(w) \/ WorkerSendOk(w) \/ EnvRefuse(w) \/ WorkerSendErr(w)
Spec == Init /\ [][Next]_vars /\ WF_vars(MainRecv) /\ WF_vars(InlineCheck)
             /\ \A w \in Workers : WF_vars(WorkerCheck(w)) /\ WF_vars(WorkerSendOk(w)) /\ WF_vars(WorkerSendErr(w))

PrintedIsGrantedMatch == main = "printed" => out \in cfg.matching /\ out \in granted
JudgeSound ==
  /\ guardOk
  /\ (main = "printed" => V!MayPrint(cfg, obs, out))
  /\ (main = "failed" => V!MayFail(cfg, obs))
  \* a message in the channel or a matching/refused worker means the judge expects an exit
  /\ (chan # <<>> => V!MustHaveExited(cfg, obs))
\* ---- the typed transcription of the observer used by the Apalache proof agrees with Vanity.tla --------------------
\* (threaded mode; in every reachable state, for every worker and candidate: the guards, the exits and the updates)
OA == INSTANCE VanityObsOps
AllT == {MainT} \cup Workers
PSeen(s) == DOMAIN s.cand \ {s.mainT}
PCand(s) == [t \in AllT |-> IF t \in DOMAIN s.cand THEN s.cand[t] ELSE 0]
PSt(s) == [t \in AllT |-> IF t \in DOMAIN s.st THEN s.st[t] ELSE "none"]
\* two representations agree where the observer looks: on the seen workers and the main thread
SameObs(s, seen, c, st) ==
  /\ PSeen(s) = seen
  /\ \A t \in seen \cup {MainT} : PCand(s)[t] = c[t]
  /\ \A t \in seen : PSt(s)[t] = st[t]
ObsTranscriptionAgrees ==
  (N > 0 /\ obs.main = "wait") =>
    LET seen == PSeen(obs)  c == PCand(obs)  st == PSt(obs) IN
    /\ obs.mainT = MainT
    /\ OA!OMayFail(obs.main, seen, st) = V!MayFail(cfg, obs)
    /\ OA!OMustHaveExited(cfg.matching, N, obs.main, seen, c, st) = V!MustHaveExited(cfg, obs)
    /\ \A p \in 1..K : OA!OMayPrint(cfg.matching, N, obs.main, seen, c, st, p) = V!MayPrint(cfg, obs, p)
    /\ \A t \in Workers :
         /\ OA!OMayRequest(cfg.matching, N, obs.main, seen, c, st, t) = V!MayRequest(cfg, obs, t)
         /\ SameObs(V!WorkerRefuse(cfg, obs, t), seen \cup {t}, OA!ORefuseCand(seen, c, t), OA!ORefuseSt(st, t))
         /\ \A p \in 1..K : SameObs(V!WorkerGrant(cfg, obs, t, p), seen \cup {t}, OA!OGrantCand(c, t, p), OA!OGrantSt(st, t))
NoPhraseAfterMainRefusal == obs.main = "failed" => main = "failed" /\ out = 0
AtMostOnePrint == main = "printed" => out # 0
ExitsWhenMessagePending == (chan # <<>>) ~> (main \in {"printed", "failed"})
=============================================================================
