---------------------------- MODULE Gen_C18sched ----------------------------
(***************************************************************************)
(* Spec -> implementation for the CONCURRENT part: TLC explores the vanity *)
(* model MC_Vanity (main, NW workers, channel, entropy environment) and    *)
(* every complete behaviour becomes a SCHEDULE for the real binary: the    *)
(* sequence of the environment's answers (which thread is answered next,   *)
(* Grant(candidate) or Refuse).  The LD_PRELOAD shim enforces that order   *)
(* (a thread asking out of turn blocks; thread ordinals are assigned in    *)
(* the order of first request, so only behaviours whose workers first ask  *)
(* in increasing order are emitted - the others are renamings).  Abstract  *)
(* candidates become real entropy: for candidate p a spec-made entropy     *)
(* whose phrase's account matches the prefix when p is in the matching set *)
(* of the behaviour, and one that does not otherwise.                      *)
(* The judge then validates the recorded run as usual (fold through the    *)
(* observer of Vanity.tla) and reports a run that does not follow the      *)
(* schedule.                                                               *)
(***************************************************************************)
EXTENDS GenNew, FiniteSets

CONSTANT NW                     \* number of workers of the model = -j of the real run
VARIABLES cfg, main, wst, cand, chan, out, obs, nreq, granted, guardOk, hist
MV == INSTANCE MC_Vanity WITH N <- NW

Spec == MV!Init /\ [][MV!Next]_MV!vars

Prefix == "0x5"
Cfg == [vanity |-> TRUE, threads |-> NW, nibbles |-> <<5>>, vpassword |-> <<>>, words |-> 12, comps |-> ForIndex(<<>>)]
Ent(p, k) == Prng(Key("sched-candidate", <<p, k>>), 16)
\* the first candidate entropy for slot p that (does not) match the prefix
MatchEnt(p)   == Ent(p, CHOOSE k \in 1..400 : ConcreteMatches(Cfg, PhraseOfEntropy(Ent(p, k))))
NoMatchEnt(p) == Ent(p, CHOOSE k \in 1..400 : ~ConcreteMatches(Cfg, PhraseOfEntropy(Ent(p, k))))

\* ordinal of thread t: 0 for the main thread, otherwise the rank of its first request among the workers
FirstAt(t) == CHOOSE i \in 1..Len(hist) : hist[i].t = t /\ \A q \in 1..(i - 1) : hist[q].t # t
Asked == {hist[i].t : i \in 1..Len(hist)} \ {0}
Ord(t) == IF t = 0 THEN 0 ELSE Cardinality({u \in Asked : FirstAt(u) <= FirstAt(t)})
Canonical == \A a, b \in Asked : a < b => FirstAt(a) < FirstAt(b)

\* a cheap deterministic sample of the behaviours
\* (behaviours that end in a refusal are the large majority: those that end with a printed phrase are sampled more densely)
Stride == IF main = "printed" THEN (IF Thorough THEN 1 ELSE 2) ELSE IF Thorough THEN 3 ELSE 9
Pick == (Len(hist) * 7 + Cardinality(cfg.matching) * 3
         + (IF Len(hist) > 0 THEN hist[Len(hist)].t * 5 + hist[Len(hist)].p ELSE 0)
         + (IF Len(hist) > 1 THEN hist[2].p * 11 + hist[2].t ELSE 0)) % Stride = 0

Schedule ==
  [i \in 1..Len(hist) |->
     [ord |-> Ord(hist[i].t), rc |-> IF hist[i].ok THEN 0 ELSE 0 - 1,
      hex |-> IF hist[i].ok THEN BytesToHex(IF hist[i].p \in cfg.matching THEN MatchEnt(hist[i].p) ELSE NoMatchEnt(hist[i].p)) ELSE ""]]

Item ==
  LET c == New("12", Prefix, "", "", "", ToString(NW))
  IN  [i |-> 0, op |-> "cli.new", fam |-> "schedule_j" \o ToString(NW),
       in |-> [new |-> c, argv |-> NewArgv(c), env |-> [HDW_NONE |-> ""], timeout_ms |-> 15000,
               shim |-> [schedule |-> Schedule],
               \* what the model did at the end of this behaviour (for the record; the judge uses the observer)
               model_exit |-> main, model_matching |-> cfg.matching]]

Terminal == main \in {"printed", "failed"}
EmitInv == (Terminal /\ Canonical /\ Pick) => Emit("workload", Item)
=============================================================================
