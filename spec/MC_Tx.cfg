SPECIFICATION Spec
INVARIANT Decodes
INVARIANT TailOK
CHECK_DEADLOCK FALSE
