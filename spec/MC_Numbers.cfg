SPECIFICATION Spec
INVARIANT Total
INVARIANT PlainIntegers
INVARIANT Ungrammatical
INVARIANT Strings
CHECK_DEADLOCK FALSE
