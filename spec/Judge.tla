------------------------------- MODULE Judge -------------------------------
(***************************************************************************)
(* Trace validation: every event recorded from the real implementation     *)
(* must be a step the specification allows.  The trace is ndjson; event e  *)
(* has e.op, e.in (the exact input executed) and e.out (the observation).  *)
(* For each event the spec yields the SET of allowed outcomes; an outcome  *)
(* outside the set is a named deviation (written to the "dev" channel with *)
(* the properties it violates and a reason code), not a blocked trace, so  *)
(* one run reports all deviations.  No expectation is computed outside the *)
(* specification modules this module extends.                              *)
(***************************************************************************)
EXTENDS Bytes, Prim, HdwIO, Numbers, Rlp, Ecdsa, Tx, Bip39, HdPath, Bip32, SigText, Eip191, HexCodec, Eip712, Wallet, NewCmd, SequencesExt, Json, IOUtils, TLC, FiniteSets

Rec == ndJsonDeserialize(IOEnv.HDW_TRACE)

VARIABLES l,        \* index of the next event to consume
          store      \* session memory: [sid, outs] - stdout (hex) of the earlier steps of the current session, by item number

Has(r, f)    == f \in DOMAIN r
IsOk(o)      == Has(o, "ok")
IsErr(o)     == Has(o, "err")
IsPanic(o)   == Has(o, "panic")
IsTimeout(o) == Has(o, "timeout")
IsSkip(o)    == Has(o, "skip")
IsAbort(o)   == Has(o, "abort")            \* the worker process died while running the item (signal / abort / exit)
Hx(s)        == HexToBytes(s)

D(props, reason, detail) == [props |-> props, reason |-> reason, detail |-> detail]

\* C17: the specification has no crash transition
CrashDevs(o) ==
  IF IsPanic(o) THEN {D({"C17"}, "panic", o.panic)}
  ELSE IF IsTimeout(o) THEN {D({"C17"}, "timeout", "")}
  ELSE IF IsAbort(o) THEN {D({"C17"}, "abort", o.abort)}
  ELSE {}

-----------------------------------------------------------------------------
\* tx.sign : in = [doc, key]   out.ok = [kind, digest, sig = [r, s, par, display], signed]

ObservedSig(o) == [r |-> Hx(o.sig.r), s |-> Hx(o.sig.s), par |-> o.sig.par]

\* names of the checks an accepted transaction fails
TxMismatches(o, tx, key) ==
  LET dg   == SigningDigest(tx)
      sig  == ObservedSig(o)
      exp  == Sign(key, dg)
      sgn  == Hx(o.signed)
  IN  {name \in {"kind", "digest", "signature", "recover", "signed_bytes", "decode"} :
         CASE name = "kind"         -> o.kind # tx.kind
           [] name = "digest"       -> Hx(o.digest) # dg
           [] name = "signature"    -> ~(IF BnLt(dg, CurveN)
                                          THEN sig.r = exp.r /\ sig.s = exp.s /\ sig.par = exp.par
                                          ELSE GoodSignature(key, dg, sig.r, sig.s, sig.par))
           [] name = "recover"      -> AddressOfPub(EcRecover(dg, sig.r, sig.s, sig.par)) # AddressOf(key)
           [] name = "signed_bytes" -> sgn # SignedPayload(tx, sig)
           [] name = "decode"       -> ~DecodesTo(sgn, tx, sig)}

TxReasonProps(name) ==
  CASE name = "kind"         -> {"C06"}
    [] name = "digest"       -> {"C06", "C07", "C11"}
    [] name = "signature"    -> {"C05", "C06"}
    [] name = "recover"      -> {"C05", "C06", "C11"}
    [] name = "signed_bytes" -> {"C06", "C07", "C11"}
    [] name = "decode"       -> {"C06", "C07"}

JudgeTxSign(e) ==
  LET o  == e.out
      p  == Parse(e.in.doc)
      key == Hx(e.in.key)
      \* v = 35 + 2c + parity that does not fit 256 bits: refusing is allowed as well
      vOpen == p.c \in {"accept", "either"} /\ p.tx.kind = "legacy" /\ ~VFits256(p.tx.chainId)
      cls == IF vOpen /\ p.c = "accept" THEN "either" ELSE p.c
      mm == IF IsOk(o) /\ cls \in {"accept", "either"} THEN TxMismatches(o.ok, p.tx, key) ELSE {}
      \* an object with REPEATED keys is an open class (refusing it is fine), but an accepted one must be the transaction of
      \* one of the two usual readings - first or last occurrence of a key counts - and that reading must be well-formed
      dup == e.in.doc.k = "obj" /\ DupKeys(e.in.doc)
      readings == IF dup THEN {Parse(Unpair(KeepFirst(e.in.doc))), Parse(Unpair(KeepLast(e.in.doc)))} ELSE {}
      dupBad == dup /\ IsOk(o) /\ ~\E r \in readings : r.c \in {"accept", "either"} /\ TxMismatches(o.ok, r.tx, key) = {}
  IN  [cls |-> cls,
       devs |->
         CrashDevs(o) \cup (IF dupBad THEN {D({"C13", "C06"}, "repeated_key_result_is_no_reading", "")} ELSE {}) \cup
         (IF IsOk(o) THEN
            (IF cls = "reject" THEN {D({"C13"}, "accepted_" \o p.why, "")}
             ELSE {D(TxReasonProps(name), name, "") : name \in mm}
                  \* an accepted open spelling whose encoding is not that of the denoted integers: the
                  \* literal was not taken at its exact value
                  \cup (IF mm # {} /\ cls = "either" THEN {D({"C13"}, "open_spelling_not_exact", "")} ELSE {}))
          ELSE IF IsErr(o) THEN
            (IF cls = "accept" THEN {D({"C13", "C06"}, "rejected_wellformed", o.err)} ELSE {})
          ELSE IF IsPanic(o) \/ IsTimeout(o) \/ IsAbort(o) THEN
            \* a crash where the spec demands an answer is also a functional deviation
            (IF vOpen THEN {D({"C11"}, "v_overflow_crash", "")}
             ELSE IF cls = "accept" THEN {D({"C06"}, "crash_on_wellformed", "")}
             ELSE IF cls = "reject" THEN {D({"C13"}, "crash_on_malformed", "")}
             ELSE {})
          ELSE {})]

-----------------------------------------------------------------------------
\* path.parse : in = [text]   out.ok = [display, comps = << <<hardened, "decimal">> >>]
ObservedComps(cs) == [i \in 1..Len(cs) |-> Comp(cs[i][1], BnFromDec(DecVals(StrToUtf8(cs[i][2]))))]
PathDevs(o, p, props) ==
  IF IsOk(o) THEN
    (IF p.c = "reject" THEN {D(props, "accepted_path_" \o p.why, o.ok.display)}
     ELSE (IF StrToUtf8(o.ok.display) # PrintPath(p.comps) THEN {D(props, "path_display", o.ok.display)} ELSE {})
          \cup (IF ObservedComps(o.ok.comps) # p.comps THEN {D(props, "path_components", o.ok.display)} ELSE {}))
  ELSE IF IsErr(o) THEN (IF p.c = "accept" THEN {D(props, "rejected_standard_path", o.err)} ELSE {})
  ELSE IF p.c \in {"accept", "reject"} THEN {D(props, "crash_" \o p.c, "")}
  ELSE {}
JudgePathParse(e) ==
  LET p == Classify(StrToUtf8(e.in.text))
  IN  [cls |-> p.c, devs |-> CrashDevs(e.out) \cup PathDevs(e.out, p, {"C14"})]

\* path.for_index : in = [index = "decimal"]   out.ok = [display]
JudgeForIndex(e) ==
  LET o   == e.out
      idx == BnFromDec(DecVals(StrToUtf8(e.in.index)))
      std == BnLt(idx, Two31)
  IN  [cls |-> IF std THEN "accept" ELSE "reject",
       devs |-> CrashDevs(o) \cup
         (IF ~std THEN
            \* no default path exists for i >= 2^31: a returned path is either not standard (it would alias a hardened
            \* index) or it is the path of ANOTHER index; refusing is the only answer about index i
            (IF IsOk(o) THEN {D({"C14"}, IF Classify(StrToUtf8(o.ok.display)).c # "accept" THEN "for_index_nonstandard_path"
                                         ELSE "for_index_path_of_another_index", o.ok.display)} ELSE {})
          ELSE IF IsOk(o) /\ StrToUtf8(o.ok.display) = PrintPath(ForIndex(idx)) THEN {}
          ELSE {D({"C14"}, "for_index", IF IsOk(o) THEN o.ok.display ELSE "no path")})]

\* hdk.derive : in = [seed, path]   out.ok = [secret, addr, path]  | err with stage
JudgeDerive(e) ==
  LET o == e.out
      p == Classify(StrToUtf8(e.in.path))
      seed == Hx(e.in.seed)
  IN  [cls |-> p.c,
       devs |-> CrashDevs(o) \cup
         (IF IsOk(o) THEN
            (IF p.c = "reject" THEN {D({"C14"}, "accepted_path_" \o p.why, o.ok.path)}
             ELSE LET st == Derive(seed, p.comps) IN
               (IF StrToUtf8(o.ok.path) # PrintPath(p.comps) THEN {D({"C14"}, "path_display", o.ok.path)} ELSE {})
               \cup (IF ~st.ok THEN {D({"C03"}, "derived_where_bip32_says_invalid", "")}
                     ELSE (IF Hx(o.ok.secret) # st.k THEN {D({"C03", "C14"}, "derived_key_mismatch", o.ok.secret)} ELSE {})
                          \cup (IF Hx(o.ok.addr) # AddressOf(st.k) THEN {D({"C04"}, "address_mismatch", o.ok.addr)} ELSE {})))
          ELSE IF IsErr(o) THEN
            (IF p.c = "accept" /\ o.stage = "path" THEN {D({"C14"}, "rejected_standard_path", o.err)}
             ELSE IF p.c = "accept" /\ Derive(seed, p.comps).ok THEN {D({"C03"}, "derivation_error", o.err)}
             ELSE {})
          ELSE {})]

\* hdk.derive.seq : in = [steps = <<[seed, path]>>]   out.ok = [steps = <<outcome of hdk.derive>>]
\* a history of derivations in one thread: derivation is a function of (seed, path), whatever was derived before
JudgeDeriveSeq(e) ==
  LET o == e.out
      n == Len(e.in.steps)
      shaped == IsOk(o) /\ Len(o.ok.steps) = n
      js == [k \in 1..n |-> JudgeDerive([i |-> e.i, op |-> "hdk.derive", in |-> e.in.steps[k], out |-> o.ok.steps[k]])]
  IN  [cls |-> "accept",
       devs |-> CrashDevs(o) \cup
         (IF ~shaped THEN (IF IsErr(o) \/ IsOk(o) THEN {D({"C03"}, "history_not_answered", "")} ELSE {})
          ELSE UNION {{D(d.props, "step_" \o ToString(k) \o "_of_history_" \o d.reason, d.detail) : d \in js[k].devs} : k \in 1..n})]

\* key.new : in = [secret]   out.ok = [secret, pub, addr, addr_display, debug]
JudgeKeyNew(e) ==
  LET o == e.out
      b == Hx(e.in.secret)
      valid == InScalarRange(b) /\ Len(BnNorm(b)) <= 32
      cls == IF Len(b) = 32 THEN (IF valid THEN "accept" ELSE "reject")
             ELSE (IF valid THEN "either" ELSE "reject")
      d == BnFixed(b, 32)
  IN  [cls |-> cls,
       devs |-> CrashDevs(o) \cup
         (IF IsOk(o) THEN
            (IF cls = "reject" THEN {D({"C04"}, "accepted_invalid_secret", e.in.secret)}
             ELSE (IF Hx(o.ok.secret) # d THEN {D({"C04"}, "secret_mismatch", o.ok.secret)} ELSE {})
                  \cup (IF Hx(o.ok.pub) # Pub65(d) THEN {D({"C04"}, "public_key_mismatch", o.ok.pub)} ELSE {})
                  \cup (IF Hx(o.ok.addr) # AddressOf(d) THEN {D({"C04"}, "address_mismatch", o.ok.addr)} ELSE {})
                  \cup (IF StrToUtf8(o.ok.addr_display) # Eip55(AddressOf(d)) THEN {D({"C04"}, "eip55_mismatch", o.ok.addr_display)} ELSE {}))
          ELSE IF IsErr(o) THEN (IF cls = "accept" THEN {D({"C04"}, "rejected_valid_secret", o.err)} ELSE {})
          ELSE {})]

\* key.sign.bulk : in = [secret, seed, from, count, chunk]   out.ok = [chunks = <<hex of SHA-256 per chunk>>]
\* every chunk hash must be the hash of the specification's signatures of the same digests
JudgeKeySignBulk(e) ==
  LET o   == e.out
      d   == Hx(e.in.secret)
      sd  == Hx(e.in.seed)
      nch == (e.in.count + e.in.chunk - 1) \div e.in.chunk
      len(c) == IF c * e.in.chunk <= e.in.count THEN e.in.chunk ELSE e.in.count - (c - 1) * e.in.chunk
      shaped == IsOk(o) /\ Len(o.ok.chunks) = nch
      bad == IF shaped THEN {c \in 1..nch : Hx(o.ok.chunks[c]) # BulkSignHash(d, sd, e.in.from + (c - 1) * e.in.chunk, len(c))} ELSE {}
  IN  [cls |-> "accept",
       devs |-> CrashDevs(o) \cup
         \* (a timeout / abort of the sweep is a C17 matter, reported by CrashDevs; it says nothing about the signatures)
         (IF ~shaped THEN (IF IsErr(o) \/ IsOk(o) THEN {D({"C05"}, "bulk_signing_failed", "")} ELSE {})
          ELSE IF bad # {} THEN
            LET c == CHOOSE x \in bad : \A y \in bad : x <= y
            IN  {D({"C05"}, "bulk_signatures_differ_from_rfc6979",
                   ToString(Cardinality(bad)) \o " chunk(s); first: " \o ToString(len(c)) \o " digests from counter "
                   \o ToString(e.in.from + (c - 1) * e.in.chunk))}
          ELSE {})]

\* key.sign : in = [secret, digest]   out.ok = [r, s, par, display, again, addr]
JudgeKeySign(e) ==
  LET o == e.out
      d == Hx(e.in.secret)
      z == Hx(e.in.digest)
  IN  [cls |-> IF BnLt(z, CurveN) THEN "accept" ELSE "either",
       devs |-> CrashDevs(o) \cup
         (IF IsOk(o) THEN
            LET sig == [r |-> Hx(o.ok.r), s |-> Hx(o.ok.s), par |-> o.ok.par]
                exp == Sign(d, z)
            IN  (IF ~GoodSignature(d, z, sig.r, sig.s, sig.par) THEN {D({"C05"}, "signature_invalid", o.ok.display)} ELSE {})
                \cup (IF BnLt(z, CurveN) /\ (sig.r # exp.r \/ sig.s # exp.s \/ sig.par # exp.par)
                      THEN {D({"C05"}, "not_rfc6979", o.ok.display)} ELSE {})
                \cup (IF ~o.ok.again THEN {D({"C05"}, "signing_not_deterministic", "")} ELSE {})
                \cup (IF Hx(o.ok.addr) # AddressOf(d) THEN {D({"C04"}, "address_mismatch", o.ok.addr)} ELSE {})
                \cup (IF StrToUtf8(o.ok.display) # PrintSig(sig) THEN {D({"C15"}, "signature_display", o.ok.display)} ELSE {})
          ELSE {D({"C05"}, "signing_failed", "")})]

\* sig.parse : in = [text]   out.ok = [r, s, par, display]
JudgeSigParse(e) ==
  LET o == e.out
      p == ParseSig(StrToUtf8(e.in.text))
  IN  [cls |-> p.c,
       devs |-> CrashDevs(o) \cup
         (IF IsOk(o) THEN
            (IF p.c = "reject" THEN {D({"C15"}, "accepted_bad_signature_" \o p.why, "")}
             ELSE (IF [r |-> Hx(o.ok.r), s |-> Hx(o.ok.s), par |-> o.ok.par] # p.sig THEN {D({"C15"}, "parsed_signature_differs", o.ok.display)} ELSE {})
                  \cup (IF StrToUtf8(o.ok.display) # PrintSig(p.sig) THEN {D({"C15"}, "signature_display", o.ok.display)} ELSE {}))
          ELSE IF IsErr(o) THEN (IF p.c = "accept" THEN {D({"C15"}, "rejected_printed_signature", o.err)} ELSE {})
          ELSE IF p.c \in {"accept", "reject"} THEN {D({"C15"}, "crash_" \o p.c, "")}
          ELSE {})]

-----------------------------------------------------------------------------
\* message : in = [data]   out.ok = [digest]
JudgeMessage(e) ==
  LET o == e.out
      exp == IF Has(e.in, "big") THEN PersonalDigestRep(Hx(e.in.big.pat)[1], e.in.big.rep) ELSE PersonalDigest(Hx(e.in.data))
  IN  [cls |-> "accept",
       devs |-> CrashDevs(o) \cup
         (IF IsOk(o) /\ Hx(o.ok.digest) = exp THEN {}
          ELSE {D({"C10"}, "personal_digest", IF IsOk(o) THEN o.ok.digest ELSE "no digest")})]

\* typeddata : in = [doc]   out.ok = [domsep, msghash, digest]
TdRejectProps(why) == IF why \in {"domain_type", "no_domain_type"} THEN {"C20"} ELSE {"C09"}
JudgeTypedData(e) ==
  LET o  == e.out
      oc == TypedDataOutcome(e.in.doc)
  IN  [cls |-> oc.c,
       devs |-> CrashDevs(o) \cup
         (IF IsOk(o) THEN
            (IF oc.c = "reject" THEN {D(TdRejectProps(oc.why), "accepted_" \o oc.why, "")}
             ELSE IF oc.c \in {"accept", "either"} THEN
               (IF Hx(o.ok.domsep) # oc.domsep THEN {D({"C08", "C20"}, "domain_separator", o.ok.domsep)} ELSE {})
               \cup (IF Hx(o.ok.msghash) # oc.msghash THEN {D({"C08"}, "message_hash", o.ok.msghash)} ELSE {})
               \cup (IF Hx(o.ok.digest) # oc.digest THEN {D({"C08"}, "signing_digest", o.ok.digest)} ELSE {})
             ELSE {})
          ELSE IF IsErr(o) THEN (IF oc.c = "accept" THEN {D({"C08", "C20"}, "rejected_conforming", o.err)} ELSE {})
          ELSE IF oc.c = "accept" THEN {D({"C08"}, "crash_accept", "")}
          ELSE IF oc.c = "reject" THEN {D(TdRejectProps(oc.why), "crash_reject", "")}
          ELSE {})]

\* hooks: eip712.encode_type : in = [types (AST), kind]   out.ok.text
JudgeEncodeType(e) ==
  LET o == e.out
      ok == WellShapedTypes(e.in.types)
      types == TypesOf(e.in.types)
      judged == ok /\ ClosureDefined(types, e.in.kind) /\ ~ClosureOpen(types, e.in.kind)
  IN  [cls |-> IF judged THEN "accept" ELSE "open",
       devs |-> CrashDevs(o) \cup
         (IF judged /\ ~(IsOk(o) /\ StrToUtf8(o.ok.text) = EncodeType(types, e.in.kind))
          THEN {D({"C08"}, "encode_type", IF IsOk(o) THEN o.ok.text ELSE "error")} ELSE {})]
\* hooks: eip712.member_kind : in = [text]   out.ok = [debug, display]
JudgeMemberKind(e) ==
  LET o  == e.out
      kd == ParseType(StrToUtf8(e.in.text))
  IN  [cls |-> IF HasOpen(kd) THEN "open" ELSE "accept",
       devs |-> CrashDevs(o) \cup
         (IF ~HasOpen(kd) /\ ~(IsOk(o) /\ StrToUtf8(o.ok.display) = PrintType(kd))
          THEN {D({"C08"}, "member_kind_print", IF IsOk(o) THEN o.ok.display ELSE "error")} ELSE {})]

-----------------------------------------------------------------------------
\* cli : in = [cmd, argv, env, files | stdin, rel?]   out = [status, signal, stdout, stderr_len, timeout]
\* The recorded exit status / stdout must be the terminal state of Wallet!Run(cmd).
CliCrashed(o)  == o.status = 101 \/ o.signal # 0 \/ o.timeout
CliFailedOk(o) == ~CliCrashed(o) /\ o.status # 0 /\ o.stdout = "" /\ o.stderr_len > 0       \* an ordinary error
CliCrashDevs(o) ==
  IF o.timeout THEN {D({"C17"}, "cli_timeout", "")}
  ELSE IF o.status = 101 THEN {D({"C17"}, "cli_panic", o.stderr_head)}
  ELSE IF o.signal # 0 THEN {D({"C17"}, "cli_signal", ToString(o.signal))}
  ELSE {}
\* properties a wrong / missing result of this command violates
CliResultProps(c) ==
  IF c.sub = "hex" THEN {"C19"}
  ELSE IF c.sub \in {"address", "export", "public-key"} THEN {"C16"}
  ELSE {"C16"} \cup
       (IF c.what = "transaction" THEN {"C06", "C11"} \cup (IF HasFlag(c, "signature_only") \/ c.sigtext # "" THEN {"C15"} ELSE {})
        ELSE IF c.what = "message" THEN {"C10"}
        ELSE IF c.what = "typeddata" THEN {"C08"}
        ELSE IF c.what = "raw" THEN {"C05"}
        ELSE {})
\* properties violated by printing where the spec demands a refusal
CliRefusalProps(why) ==
  IF why = "missing_replay_protection" THEN {"C11"}
  ELSE IF why \in {"selectors_combined", "mnemonic_required", "raw_digest"} THEN {"C16"}
  ELSE IF why \in {"mnemonic_word_count", "mnemonic_unknown_word", "mnemonic_checksum"} THEN {"C01", "C16"}
  ELSE IF why \in {"path_index_ge_2^31", "path_not_a_number", "path_missing_root", "account_index_ge_2^31"} THEN {"C14", "C16"}
  ELSE IF why \in {"signature_length", "signature_non_hex", "signature_v", "signature_scalar_range"} THEN {"C15"}
  ELSE IF why \in {"typeddata_domain_type", "typeddata_no_domain_type"} THEN {"C20"}
  ELSE IF why = "hex_text" THEN {"C19"}
  \* usage errors proper (Args.tla): the design, no listed property - a divergence is recorded, never reported as a violation
  ELSE IF why \in {"usage_" \o u : u \in UsageReasons} THEN {}
  ELSE IF why \in {"typeddata_int_range", "typeddata_uint_range", "typeddata_uint_negative", "typeddata_bytesN_len",
                   "typeddata_fixed_array_len", "typeddata_missing_member", "typeddata_extra_member",
                   "typeddata_undefined_type", "typeddata_wrong_kind", "typeddata_malformed", "typeddata_fraction",
                   "typeddata_bad_hex", "typeddata_bad_address", "typeddata_fraction_beyond_f64_precision",
                   "typeddata_too_large"} THEN {"C09"}
  ELSE {"C13"}           \* transaction_*

\* relations between a session step and earlier steps (in.rel = <<kind, item...>>)
StoreGet(i) == store.outs[i]
OutText(hexs) == Hx(hexs)                  \* stdout bytes
TrimNl(bs) == IF Len(bs) > 0 /\ bs[Len(bs)] = 10 THEN SubSeq(bs, 1, Len(bs) - 1) ELSE bs
\* "0x..." text (codes) -> bytes; <<>> if malformed
HexTextBytes(cs) == IF Len(cs) >= 2 /\ cs[1] = 48 /\ cs[2] = 120 /\ AllHex(SubSeq(cs, 3, Len(cs))) /\ Len(cs) % 2 = 0
                    THEN HexPairs(SubSeq(cs, 3, Len(cs))) ELSE <<>>
RelDevs(e) ==
  IF ~Has(e.in, "rel") \/ e.in.rel = <<>> \/ e.out.status # 0 THEN {}
  ELSE
  LET r    == e.in.rel
      mine == TrimNl(OutText(e.out.stdout))
  IN
  IF r[1] = "keccak_of_output" THEN
    \* hash transaction --signature S  prints keccak of what  sign transaction  printed (item r[2])
    (IF r[2] \in DOMAIN store.outs /\ HexTextBytes(mine) # Keccak256(HexTextBytes(TrimNl(OutText(StoreGet(r[2])))))
     THEN {D({"C15"}, "hash_of_signed_transaction_differs", "")} ELSE {})
  ELSE IF r[1] = "decodes_to_input_of" THEN
    \* hex decode of the output of hex encode (item r[2]) gives back the bytes given in r[3]
    (IF OutText(e.out.stdout) # Hx(r[3]) THEN {D({"C19"}, "encode_decode_not_inverse", "")} ELSE {})
  ELSE IF r[1] = "signature_recovers" THEN
    \* this step printed a signature; item r[2] printed the digest, item r[3] the address
    (IF r[2] \in DOMAIN store.outs /\ r[3] \in DOMAIN store.outs THEN
       LET sg == ParseSig(mine)
           dg == HexTextBytes(TrimNl(OutText(StoreGet(r[2]))))
           ad == TrimNl(OutText(StoreGet(r[3])))
       IN  IF sg.c = "accept" /\ Len(dg) = 32
              /\ Eip55(AddressOfPub(EcRecover(dg, sg.sig.r, sg.sig.s, sg.sig.par))) = ad THEN {}
           ELSE {D({"C16"}, "sign_hash_address_disagree", "")}
     ELSE {})
  ELSE {}

JudgeCli(e) ==
  LET o == e.out
      c == e.in.cmd
      r == Run(c)
      bound == e.in.argv = Argv(c)            \* the executed argv is the spec's rendering of the command
      exact == r.pc = "printed" /\ ~r.either
      printedRight == o.status = 0 /\ ~CliCrashed(o) /\ Hx(o.stdout) = r.out
  IN  [cls |-> IF r.pc = "open" THEN "open" ELSE IF r.pc = "failed" THEN "reject" ELSE IF r.either THEN "either" ELSE "accept",
       devs |->
         CliCrashDevs(o) \cup RelDevs(e) \cup
         (IF ~bound THEN {D({"C16"}, "argv_not_rendering_of_command", "")} ELSE {}) \cup
         (IF r.pc = "open" THEN {}
          ELSE IF r.pc = "failed" THEN
            (IF CliFailedOk(o) THEN {}
             ELSE IF CliCrashed(o) THEN {D(CliRefusalProps(r.why), "cli_crash_instead_of_refusal_" \o r.why, "")}
             ELSE IF o.status = 0 THEN {D(CliRefusalProps(r.why), "cli_printed_instead_of_refusal_" \o r.why, o.stdout)}
             ELSE IF o.stdout # "" THEN {D(CliRefusalProps(r.why), "cli_output_before_error", o.stdout)}
             ELSE {D({"C17"}, "cli_error_without_message", "")})
          ELSE \* printed
            (IF printedRight THEN {}
             ELSE IF r.either /\ CliFailedOk(o) THEN {}
             ELSE IF CliCrashed(o) THEN {D(CliResultProps(c), "cli_crash_instead_of_result", "")}
             ELSE IF o.status = 0 THEN {D(CliResultProps(c), "cli_wrong_output", o.stdout)}
             ELSE {D(CliResultProps(c), "cli_refused_valid_command", o.stderr_head)}))]

-----------------------------------------------------------------------------
\* cli.new : in = [new = [length, prefix, vpassword, vindex, vpath, threads] (texts, "" = not given), argv, shim]
\*           out = [status, signal, stdout, stderr_len, timeout, reqs = <<[seq, tid, len, rc, hex]>>]
\* The shim's totally ordered log of the environment's answers is folded through the observer operators
\* of Vanity.tla (MC_Vanity proves: every behaviour of the model passes this fold).
JudgeNew(e) ==
  LET o  == e.out
      c  == e.in.new
      lenCs == StrToUtf8(c.length)
      thrCs == StrToUtf8(c.threads)
      ixCs  == StrToUtf8(c.vindex)
      pre   == IF c.prefix = "" THEN [c |-> "accept", nibbles |-> <<>>] ELSE ParsePrefix(StrToUtf8(c.prefix))
      path  == IF c.vpath = "" THEN [c |-> "accept", comps |-> <<>>] ELSE Classify(StrToUtf8(c.vpath))
      ixOk  == c.vindex = "" \/ (SmallNat(ixCs) \/ (AllDigit(ixCs) /\ Len(ixCs) <= 10 /\ (Len(ixCs) = 1 \/ ixCs[1] # 48)
                                                     /\ BnLt(BnFromDec(DecVals(ixCs)), Two31)))
      \* spellings / combinations this specification leaves open
      \* the length: a canonical decimal numeral of ANY size is a number (refused unless it is a supported count)
      open  == ~(c.length = "" \/ CanonDec(lenCs)) \/ ~(c.threads = "" \/ SmallNat(thrCs)) \/ pre.c = "open"
               \/ path.c = "either" \/ (c.vindex # "" /\ ~AllDigit(ixCs))
      crashed == CliCrashed(o)
      bound == e.in.argv = NewArgv(c)
  IN
  IF open THEN [cls |-> "open", devs |-> CliCrashDevs(o)]
  ELSE
  LET words == IF c.length = "" THEN 12 ELSE IF Len(lenCs) <= 4 THEN BnToNat(BnFromDec(DecVals(lenCs))) ELSE 0
      cfg == [vanity |-> c.prefix # "", threads |-> IF c.threads = "" THEN 64 ELSE BnToNat(BnFromDec(DecVals(thrCs))),
              nibbles |-> pre.nibbles, vpassword |-> StrToCps(c.vpassword), words |-> words,
              comps |-> IF c.vpath # "" THEN path.comps
                        ELSE ForIndex(IF c.vindex = "" \/ ~ixOk THEN <<>> ELSE BnFromDec(DecVals(ixCs)))]
      \* the command line itself must be refused: bad prefix, both selectors, bad path, unsupported length,
      \* a vanity account index for which no default path exists
      mustRefuse == pre.c = "reject" \/ (c.vindex # "" /\ c.vpath # "") \/ path.c = "reject" \/ ~ConcreteSupported(cfg)
                    \/ ~LanguageOk(c)
                    \/ (c.prefix # "" /\ ~ixOk)
      reqs == o.reqs
      \* fold of the environment's answers
      step(acc, r) ==
        LET s == acc.s IN
        IF acc.k = 1 THEN
          [k |-> 2,
           s |-> IF r.rc = 0 /\ r.len = EntBytes(words) THEN VN!MainGrant(cfg, s, r.tid, PhraseOfEntropy(Hx(r.hex)))
                 ELSE VN!MainRefuse(cfg, s, r.tid),
           devs |-> IF r.rc = 0 /\ r.len # EntBytes(words)
                    THEN {D({"C12"}, "entropy_request_size", ToString(r.len))} ELSE {}]
        ELSE IF s.main \notin {"wait", "inline"} THEN
          [acc EXCEPT !.k = @ + 1, !.devs = @ \cup {D({"C12", "C18"}, "entropy_request_after_exit_point", ToString(r.seq))}]
        ELSE IF ~VN!MayRequest(cfg, s, r.tid) THEN
          \* a thread asked for entropy although the model's worker would not: its candidate matches,
          \* it was refused before, or there are more searching threads than requested
          [acc EXCEPT !.k = @ + 1, !.devs = @ \cup {D({"C18"}, "request_not_allowed_by_vanity_model", ToString(r.seq))}]
        ELSE
          [k |-> acc.k + 1,
           s |-> IF r.rc = 0 /\ r.len = EntBytes(words) THEN VN!WorkerGrant(cfg, s, r.tid, PhraseOfEntropy(Hx(r.hex)))
                 ELSE VN!WorkerRefuse(cfg, s, r.tid),
           devs |-> acc.devs \cup (IF r.rc = 0 /\ r.len # EntBytes(words)
                                   THEN {D({"C12"}, "entropy_request_size", ToString(r.len))} ELSE {})]
      fin == IF mustRefuse THEN [k |-> 1, s |-> VN!Init(cfg), devs |-> {}]
             ELSE FoldLeft(step, [k |-> 1, s |-> VN!Init(cfg), devs |-> {}], reqs)
      printed == ~crashed /\ o.status = 0
      text == Hx(o.stdout)
      phrase == Utf8ToStr(TrimNl(text))
      pp == ParsePhrase(StrToCps(phrase))
      props == IF c.prefix = "" THEN {"C12"} ELSE {"C12", "C18"}
      \* independent invocations never repeat a phrase (session relation "fresh_phrase")
      stale == Has(e.in, "rel") /\ e.in.rel = <<"fresh_phrase">> /\ printed
               /\ \E k \in DOMAIN store.outs : store.outs[k] = o.stdout
  IN
  [cls |-> IF mustRefuse THEN "reject" ELSE "accept",
   devs |->
     CliCrashDevs(o) \cup fin.devs \cup
     (IF stale THEN {D({"C12"}, "phrase_repeated_across_invocations", phrase)} ELSE {}) \cup
     (IF ~mustRefuse /\ Has(e.in.shim, "slow_after_fail_ms") /\ ~VN!PromptExit(cfg, fin.s)
      THEN {D({"C12"}, "search_continued_after_entropy_failure", ToString(fin.s.late))} ELSE {}) \cup
     (IF ~bound THEN {D({"C18"}, "argv_not_rendering_of_command", "")} ELSE {}) \cup
     \* a run under a schedule generated from MC_Vanity (Gen_C18sched): the process must be able to follow the
     \* model's behaviour - the thread whose answer is next asks for it (or the process has exited)
     (IF ~mustRefuse /\ Has(o, "diverged") /\ o.diverged # <<>>
      THEN {D(props, IF o.diverged[1].kind = "O" THEN "alive_after_end_of_model_behaviour" ELSE "did_not_follow_model_schedule",
              "step " \o ToString(o.diverged[1].pos) \o ", thread ordinal " \o ToString(o.diverged[1].ord))}
      ELSE {}) \cup
     (IF crashed THEN
        (IF o.timeout /\ c.prefix # "" /\ Len(pre.nibbles) <= 3 /\ ~mustRefuse THEN {D({"C18"}, "vanity_search_did_not_terminate", "")}
         ELSE IF mustRefuse THEN {D(props, "cli_crash_instead_of_refusal", "")}
         ELSE IF o.timeout THEN {}                                  \* a long search (more than 3 digits): not bounded by the property
         ELSE {D(props, "cli_crash_instead_of_result", o.stderr_head)})
      ELSE IF mustRefuse THEN
        (IF CliFailedOk(o) THEN {}
         ELSE IF printed THEN {D(IF pre.c = "reject" THEN {"C18"} ELSE props, "new_printed_instead_of_refusal", phrase)}
         ELSE {D(props, "cli_output_before_error", "")})
      ELSE IF printed THEN
        (IF text = <<>> \/ text[Len(text)] # 10 \/ pp.c # "accept"
         THEN {D(props, "printed_phrase_not_valid", phrase)}
         ELSE (IF pp.n # words THEN {D(props, "printed_phrase_length", ToString(pp.n))} ELSE {})
              \* the phrase is the image of granted entropy and, for a vanity search, a matching current candidate
              \cup (IF ~VN!MayPrint(cfg, fin.s, pp.phrase)
                    THEN {D(props, IF c.prefix # "" /\ ~ConcreteMatches(cfg, pp.phrase)
                                   THEN "printed_phrase_lacks_prefix" ELSE "printed_phrase_not_explained_by_entropy_log", phrase)}
                    ELSE {})
              \cup (IF \E k \in 1..Len(reqs) : reqs[k].rc # 0 /\ c.prefix = ""
                    THEN {D({"C12"}, "phrase_after_entropy_failure", phrase)} ELSE {}))
      ELSE \* an ordinary error
        (IF ~CliFailedOk(o) THEN {D(props, "cli_output_before_error", "")}
         ELSE IF ~VN!MayFail(cfg, fin.s) THEN {D(props, "new_failed_without_entropy_failure", o.stderr_head)}
         ELSE {}))]

\* tx.encode : in = [doc, sigtext]   out.ok = [signed, sig]      Transaction::encode with ANY parsed signature
JudgeTxEncode(e) ==
  LET o  == e.out
      p  == Parse(e.in.doc)
      sg == ParseSig(StrToUtf8(e.in.sigtext))
      exact == p.c = "accept" /\ sg.c = "accept" /\ ~(p.tx.kind = "legacy" /\ ~VFits256(p.tx.chainId))
  IN  [cls |-> IF exact THEN "accept" ELSE "open",
       devs |-> CrashDevs(o) \cup
         (IF ~exact THEN {}
          ELSE IF IsOk(o) THEN
            (IF Hx(o.ok.signed) # SignedPayload(p.tx, sg.sig) THEN {D({"C06", "C07"}, "signed_bytes", o.ok.signed)} ELSE {})
            \cup (IF ~DecodesTo(Hx(o.ok.signed), p.tx, sg.sig) THEN {D({"C06", "C07"}, "decode", "")} ELSE {})
          ELSE {D({"C06"}, "encode_failed", "")})]

-----------------------------------------------------------------------------
\* hook sweeps of the private RLP primitives: out.ok.hex must be the spec encoding
Exact(e, expected, props, reason) ==
  LET o == e.out IN
  [cls |-> "accept",
   devs |-> CrashDevs(o) \cup
            (IF IsOk(o) /\ Hx(o.ok.hex) = expected THEN {}
             ELSE {D(props, reason, IF IsOk(o) THEN o.ok.hex ELSE "no result")})]

JudgeRlpLen(e) ==
  Exact(e, LenHdrBn(BnFromDec(DecVals(StrToUtf8(e.in.len))), e.in.off), {"C07"}, "rlp_len")
JudgeRlpBytes(e) == Exact(e, EncBytes(Hx(e.in.data)), {"C07"}, "rlp_bytes")
JudgeRlpUint(e)  == Exact(e, EncUint(Hx(e.in.value)), {"C07"}, "rlp_uint")
JudgeRlpList(e)  ==
  Exact(e, EncListRaw([i \in 1..Len(e.in.items) |-> Hx(e.in.items[i])]), {"C07"}, "rlp_list")

-----------------------------------------------------------------------------
\* mnemonic.parse : in = [text]   out.ok = [phrase, display, len, reparsed]
MnParseDevs(o, p, props) ==
  IF IsOk(o) THEN
    (IF p.c = "reject" THEN {D(props, "accepted_invalid_" \o p.why, o.ok.phrase)}
     ELSE (IF o.ok.phrase # p.phrase \/ o.ok.display # p.phrase THEN {D(props, "phrase_mismatch", o.ok.phrase)} ELSE {})
          \cup (IF o.ok.len # p.n THEN {D(props, "length_mismatch", ToString(o.ok.len))} ELSE {})
          \cup (IF o.ok.reparsed # p.phrase THEN {D(props, "print_parse_not_inverse", "")} ELSE {}))
  ELSE IF IsErr(o) THEN (IF p.c = "accept" THEN {D(props, "rejected_valid", o.err)} ELSE {})
  ELSE IF p.c \in {"accept", "reject"} THEN {D(props, "crash_" \o p.c, "")}
  ELSE {}

JudgeMnParse(e) ==
  LET p == ParsePhrase(StrToCps(e.in.text))
  IN  [cls |-> p.c, devs |-> CrashDevs(e.out) \cup MnParseDevs(e.out, p, {"C01"})]

\* mnemonic.sweep : in = [count, seed, pos]   out.ok = [tried, accepted = <<tokens>>]
\* a run-length directive: `count` phrases "abandon x 11 about" with a pseudo-random lower-case token at position
\* pos; every token that made the phrase parse must make it a valid phrase by the specification as well
SweepPhrase(tok, pos) ==
  LET RECURSIVE go(_)
      go(i) == IF i > 12 THEN "" ELSE (IF i = 1 THEN "" ELSE " ") \o (IF i = pos THEN tok ELSE IF i = 12 THEN "about" ELSE "abandon") \o go(i + 1)
  IN  go(1)
JudgeMnSweep(e) ==
  LET o == e.out IN
  [cls |-> "accept",
   devs |-> CrashDevs(o) \cup
     \* (a sweep that timed out or died is a C17 matter, reported by CrashDevs)
     (IF ~IsOk(o) THEN (IF IsErr(o) THEN {D({"C01"}, "sweep_failed", "")} ELSE {})
      ELSE (IF o.ok.tried # e.in.count THEN {D({"C01"}, "sweep_incomplete", "")} ELSE {})
           \cup {D({"C01"}, "accepted_unknown_word", o.ok.accepted[k]) :
                   k \in {q \in 1..Len(o.ok.accepted) : ParsePhrase(StrToCps(SweepPhrase(o.ok.accepted[q], e.in.pos))).c = "reject"}})]

\* mnemonic.seed : in = [text, pass]   out.ok = [seed]
JudgeMnSeed(e) ==
  LET o == e.out
      p == ParsePhrase(StrToCps(e.in.text))
  IN  [cls |-> p.c,
       devs |-> CrashDevs(o) \cup
         (IF IsOk(o) THEN
            (IF p.c = "reject" THEN {D({"C01"}, "accepted_invalid_" \o p.why, "")}
             ELSE IF Hx(o.ok.seed) # SeedOf(p.phrase, StrToCps(e.in.pass)) THEN {D({"C02"}, "seed_mismatch", o.ok.seed)}
             ELSE {})
          ELSE IF IsErr(o) THEN (IF p.c = "accept" THEN {D({"C01", "C02"}, "rejected_valid", o.err)} ELSE {})
          ELSE {})]

\* mnemonic.random : in = [len, feed?, fail_at]  out = ok [phrase, len, reparsed] | err ; out.reqs = <<[len, rc, hex]>>
\* The environment (Entropy.tla) answers each request with Grant(bytes) or Refuse.
IsSlice(small, big) ==
  \E off \in 0..(Len(big) - Len(small)) : SubSeq(big, off + 1, off + Len(small)) = small
JudgeMnRandom(e) ==
  LET o == e.out
      \* the requested length: a number, or a decimal numeral for lengths beyond TLC's integers (0 - 1: no valid count)
      lcs == IF Has(e.in, "len_text") THEN StrToUtf8(e.in.len_text) ELSE <<>>
      wl == IF Has(e.in, "len_text") THEN (IF CanonDec(lcs) /\ Len(lcs) <= 2 THEN NatOf(lcs) ELSE 0 - 1) ELSE e.in.len
      reqs == IF Has(o, "reqs") THEN o.reqs ELSE <<>>
      refused == \E k \in 1..Len(reqs) : reqs[k].rc # 0
      props == {"C12"}
  IN  [cls |-> IF wl \in ValidCounts THEN "accept" ELSE "reject",
       devs |-> CrashDevs(o) \cup
         (IF IsOk(o) THEN
            LET p == ParsePhrase(StrToCps(o.ok.phrase)) IN
            (IF ~(wl \in ValidCounts) THEN {D(props \cup {"C01"}, "generated_unsupported_length", IF Has(e.in, "len_text") THEN e.in.len_text ELSE ToString(e.in.len))} ELSE {})
            \cup (IF refused THEN {D(props, "phrase_after_entropy_failure", "")} ELSE {})
            \cup (IF p.c # "accept" THEN {D(props, "generated_phrase_not_valid", o.ok.phrase)}
                  ELSE (IF p.n # wl \/ o.ok.len # wl THEN {D(props, "generated_length_mismatch", ToString(p.n))} ELSE {})
                       \cup (IF o.ok.reparsed # o.ok.phrase THEN {D(props, "generated_not_parsed_back", "")} ELSE {})
                       \* every entropy byte comes from the source: the entropy is a contiguous slice of the
                       \* bytes granted (in order) during this generation; requesting in several pieces or
                       \* requesting surplus bytes is not constrained
                       \cup (IF ~IsSlice(EntropyOfIdx(p.idx),
                                         Concat([k \in 1..Len(reqs) |-> IF reqs[k].rc = 0 THEN Hx(reqs[k].hex) ELSE <<>>]))
                             THEN {D(props, "entropy_not_from_source", o.ok.phrase)} ELSE {})
                       \* with an injected feed the phrase is determined: entropy = the first bytes granted
                       \cup (IF Has(e.in, "feed") /\ wl \in ValidCounts
                                /\ o.ok.phrase # PhraseOfEntropy(SubSeq(Hx(e.in.feed), 1, EntBytes(wl)))
                             THEN {D(props \cup {"C01"}, "phrase_not_entropy_image", o.ok.phrase)} ELSE {}))
          ELSE IF IsErr(o) THEN
            (IF wl \in ValidCounts /\ ~refused THEN {D(props, "spurious_generation_error", o.err)} ELSE {})
          ELSE {D(props, "crash_in_generation", "")})]

-----------------------------------------------------------------------------
\* seq : in = [steps = <<[op, in]>>]   out.ok = [steps = <<outcome of the step's operation>>]
\* A HISTORY of library calls on one thread of one process.  Every operation is a function of its input: each step is
\* judged exactly as if it had been made alone, whatever was computed before it.
RECURSIVE JudgeEvent(_)
JudgeSeq(e) ==
  LET o == e.out
      n == Len(e.in.steps)
      shaped == IsOk(o) /\ Len(o.ok.steps) = n
      js == [k \in 1..n |-> JudgeEvent([i |-> e.i, op |-> e.in.steps[k].op, in |-> e.in.steps[k].in, out |-> o.ok.steps[k]])]
  IN  [cls |-> IF n = 0 THEN "skip" ELSE "accept",
       devs |-> CrashDevs(o) \cup
         (IF ~shaped THEN {}
          \* (reason and operation of the step are kept, so that a known finding is recognised inside a history too)
          ELSE UNION {{[props |-> d.props, reason |-> d.reason, op |-> e.in.steps[k].op,
                        detail |-> "history step " \o ToString(k) \o ": " \o d.detail] : d \in js[k].devs} : k \in 1..n})]

JudgeEvent(e) ==
  IF IsSkip(e.out) THEN [cls |-> "skip", devs |-> {}]
  ELSE CASE e.op = "tx.sign"   -> JudgeTxSign(e)
         [] e.op = "tx.encode" -> JudgeTxEncode(e)
         [] e.op = "mnemonic.parse"  -> JudgeMnParse(e)
         [] e.op = "mnemonic.seed"   -> JudgeMnSeed(e)
         [] e.op = "mnemonic.sweep"  -> JudgeMnSweep(e)
         [] e.op = "mnemonic.random" -> JudgeMnRandom(e)
         [] e.op = "path.parse"      -> JudgePathParse(e)
         [] e.op = "path.for_index"  -> JudgeForIndex(e)
         [] e.op = "hdk.derive"      -> JudgeDerive(e)
         [] e.op = "key.new"         -> JudgeKeyNew(e)
         [] e.op = "key.sign"        -> JudgeKeySign(e)
         [] e.op = "key.sign.bulk"   -> JudgeKeySignBulk(e)
         [] e.op = "hdk.derive.seq"  -> JudgeDeriveSeq(e)
         [] e.op = "seq"             -> JudgeSeq(e)
         [] e.op = "sig.parse"       -> JudgeSigParse(e)
         [] e.op = "message"         -> JudgeMessage(e)
         [] e.op = "typeddata"       -> JudgeTypedData(e)
         [] e.op = "eip712.encode_type" -> JudgeEncodeType(e)
         [] e.op = "eip712.member_kind" -> JudgeMemberKind(e)
         [] e.op = "cli"             -> JudgeCli(e)
         [] e.op = "cli.new"         -> JudgeNew(e)
         [] e.op = "rlp.len"   -> JudgeRlpLen(e)
         [] e.op = "rlp.bytes" -> JudgeRlpBytes(e)
         [] e.op = "rlp.uint"  -> JudgeRlpUint(e)
         [] e.op = "rlp.list"  -> JudgeRlpList(e)

EmptyStore == [sid |-> "", outs |-> <<>>]
Remember(e) ==
  IF ~Has(e, "sid") THEN EmptyStore
  ELSE LET sid == ToString(e.sid)
           prev == IF store.sid = sid THEN store.outs ELSE <<>>
       IN  [sid |-> sid, outs |-> IF Has(e.out, "stdout") THEN (e.i :> e.out.stdout) @@ prev ELSE prev]
Init == l = 1 /\ store = EmptyStore
Next ==
  /\ l <= Len(Rec)
  /\ LET e == Rec[l]
         j == JudgeEvent(e)
     IN  /\ Emit("cls", [i |-> e.i, op |-> e.op, cls |-> j.cls, ndev |-> Cardinality(j.devs)])
         /\ \A d \in j.devs :
              Emit("dev", [i |-> e.i, op |-> IF Has(d, "op") THEN d.op ELSE e.op, props |-> d.props, reason |-> d.reason, detail |-> d.detail])
  /\ l' = l + 1
  /\ store' = Remember(Rec[l])
Spec == Init /\ [][Next]_<<l, store>>

\* every line consumed: one state per event plus the initial state
TraceAccepted ==
  \/ TLCGet("stats").diameter = Len(Rec) + 1
  \/ Print(<<"TRACE NOT ACCEPTED: first unmatched event", TLCGet("stats").diameter, Len(Rec)>>, FALSE)
=============================================================================
