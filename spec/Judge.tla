------------------------------- MODULE Judge -------------------------------
(***************************************************************************)
(* Trace validation: every event recorded from the real implementation     *)
(* must be a step the specification allows.  The trace is ndjson; event e  *)
(* has e.op, e.in (the exact input executed) and e.out (the observation).  *)
(* For each event the spec yields the SET of allowed outcomes; an outcome  *)
(* outside the set is a named deviation (written to the "dev" channel with *)
(* the properties it violates and a reason code), not a blocked trace, so  *)
(* one run reports all deviations.  No expectation is computed outside the *)
(* specification modules this module extends.                              *)
(***************************************************************************)
EXTENDS Bytes, Prim, HdwIO, Numbers, Rlp, Ecdsa, Tx, Json, IOUtils, TLC, FiniteSets

Rec == ndJsonDeserialize(IOEnv.HDW_TRACE)

VARIABLE l          \* index of the next event to consume

Has(r, f)    == f \in DOMAIN r
IsOk(o)      == Has(o, "ok")
IsErr(o)     == Has(o, "err")
IsPanic(o)   == Has(o, "panic")
IsTimeout(o) == Has(o, "timeout")
IsSkip(o)    == Has(o, "skip")
Hx(s)        == HexToBytes(s)

D(props, reason, detail) == [props |-> props, reason |-> reason, detail |-> detail]

\* C17: the specification has no crash transition
CrashDevs(o) ==
  IF IsPanic(o) THEN {D({"C17"}, "panic", o.panic)}
  ELSE IF IsTimeout(o) THEN {D({"C17"}, "timeout", "")}
  ELSE {}

-----------------------------------------------------------------------------
\* tx.sign : in = [doc, key]   out.ok = [kind, digest, sig = [r, s, par, display], signed]

ObservedSig(o) == [r |-> Hx(o.sig.r), s |-> Hx(o.sig.s), par |-> o.sig.par]

\* names of the checks an accepted transaction fails
TxMismatches(o, tx, key) ==
  LET dg   == SigningDigest(tx)
      sig  == ObservedSig(o)
      exp  == Sign(key, dg)
      sgn  == Hx(o.signed)
  IN  {name \in {"kind", "digest", "signature", "recover", "signed_bytes", "decode"} :
         CASE name = "kind"         -> o.kind # tx.kind
           [] name = "digest"       -> Hx(o.digest) # dg
           [] name = "signature"    -> ~(IF BnLt(dg, CurveN)
                                          THEN sig.r = exp.r /\ sig.s = exp.s /\ sig.par = exp.par
                                          ELSE GoodSignature(key, dg, sig.r, sig.s, sig.par))
           [] name = "recover"      -> AddressOfPub(EcRecover(dg, sig.r, sig.s, sig.par)) # AddressOf(key)
           [] name = "signed_bytes" -> sgn # SignedPayload(tx, sig)
           [] name = "decode"       -> ~DecodesTo(sgn, tx, sig)}

TxReasonProps(name) ==
  CASE name = "kind"         -> {"C06"}
    [] name = "digest"       -> {"C06", "C07", "C11"}
    [] name = "signature"    -> {"C05", "C06"}
    [] name = "recover"      -> {"C05", "C06", "C11"}
    [] name = "signed_bytes" -> {"C06", "C07", "C11"}
    [] name = "decode"       -> {"C06", "C07"}

JudgeTxSign(e) ==
  LET o  == e.out
      p  == Parse(e.in.doc)
      key == Hx(e.in.key)
      \* v = 35 + 2c + parity that does not fit 256 bits: refusing is allowed as well
      vOpen == p.c \in {"accept", "either"} /\ p.tx.kind = "legacy" /\ ~VFits256(p.tx.chainId)
      cls == IF vOpen /\ p.c = "accept" THEN "either" ELSE p.c
      mm == IF IsOk(o) /\ cls \in {"accept", "either"} THEN TxMismatches(o.ok, p.tx, key) ELSE {}
  IN  [cls |-> cls,
       devs |->
         CrashDevs(o) \cup
         (IF IsOk(o) THEN
            (IF cls = "reject" THEN {D({"C13"}, "accepted_malformed", "")}
             ELSE {D(TxReasonProps(name), name, "") : name \in mm})
          ELSE IF IsErr(o) THEN
            (IF cls = "accept" THEN {D({"C13", "C06"}, "rejected_wellformed", o.err)} ELSE {})
          ELSE IF IsPanic(o) \/ IsTimeout(o) THEN
            \* a crash where the spec demands an answer is also a functional deviation
            (IF vOpen THEN {D({"C11"}, "v_overflow_crash", "")}
             ELSE IF cls = "accept" THEN {D({"C06"}, "crash_on_wellformed", "")}
             ELSE IF cls = "reject" THEN {D({"C13"}, "crash_on_malformed", "")}
             ELSE {})
          ELSE {})]

-----------------------------------------------------------------------------
JudgeEvent(e) ==
  IF IsSkip(e.out) THEN [cls |-> "skip", devs |-> {}]
  ELSE CASE e.op = "tx.sign" -> JudgeTxSign(e)

Init == l = 1
Next ==
  /\ l <= Len(Rec)
  /\ LET e == Rec[l]
         j == JudgeEvent(e)
     IN  /\ Emit("cls", [i |-> e.i, op |-> e.op, cls |-> j.cls, ndev |-> Cardinality(j.devs)])
         /\ \A d \in j.devs :
              Emit("dev", [i |-> e.i, op |-> e.op, props |-> d.props, reason |-> d.reason, detail |-> d.detail])
  /\ l' = l + 1
Spec == Init /\ [][Next]_l

\* every line consumed: one state per event plus the initial state
TraceAccepted ==
  \/ TLCGet("stats").diameter = Len(Rec) + 1
  \/ Print(<<"TRACE NOT ACCEPTED: first unmatched event", TLCGet("stats").diameter, Len(Rec)>>, FALSE)
=============================================================================
