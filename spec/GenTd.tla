------------------------------- MODULE GenTd -------------------------------
(***************************************************************************)
(* Workload families for EIP-712 typed data (Gen_C08, Gen_C09, Gen_C20).   *)
(* Documents are built from the specification's own vocabulary (atom       *)
(* names, the five standard domain members) so that every item's class is  *)
(* decided by Eip712.tla.                                                   *)
(***************************************************************************)
EXTENDS DocAst, Eip712, SequencesExt, IOUtils, TLC

Seed     == IF "VERIF_SEED" \in DOMAIN IOEnv THEN IOEnv.VERIF_SEED ELSE "0"
Thorough == "VERIF_TIER" \in DOMAIN IOEnv /\ IOEnv.VERIF_TIER = "thorough"
K(tag, nums) == Key(Seed \o "/" \o tag, nums)
TItem(fam, doc) == [i |-> 0, op |-> "typeddata", fam |-> fam, in |-> [doc |-> doc]]
S(cs) == Utf8ToStr(cs)

Member(name, type) == NObj(<< <<"name", NStr(name)>>, <<"type", NStr(type)>> >>)
TypeDef(ms) == NArr(ms)                    \* ms: sequence of Member nodes
Doc(types, prim, domain, message) ==
  NObj(<< <<"types", NObj(types)>>, <<"primaryType", NStr(prim)>>, <<"domain", domain>>, <<"message", message>> >>)

\* the simplest well-formed domain
NameOnlyDomainType == <<"EIP712Domain", TypeDef(<<Member("name", "string")>>)>>
NameOnlyDomain     == NObj(<< <<"name", NStr("hdwallet verif")>> >>)

Addr(r) == Prng(K("a", r), 20)

\* ---- domain shapes (C20) -----------------------------------------------------------
StdNames == <<"name", "version", "chainId", "verifyingContract", "salt">>
StdTypes == <<"string", "string", "uint256", "address", "bytes32">>
WrongTypes == <<"bytes", "bytes", "uint64", "address[]", "bytes">>
\* choice c in 1..11: 1..5 standard member with its type, 6..10 with a wrong type, 11 a foreign member
ChoiceName(c) == IF c = 11 THEN "description" ELSE StdNames[1 + ((c - 1) % 5)]
ChoiceType(c) == IF c = 11 THEN "string" ELSE IF c <= 5 THEN StdTypes[c] ELSE WrongTypes[c - 5]
\* a value conforming to the DECLARED type, so that only the domain rule can refuse
ChoiceValue(c) ==
  IF c \in {1, 2, 11} THEN NStr("v" \o ToString(c))
  ELSE IF c = 3 THEN NNum("1")
  ELSE IF c = 4 THEN NHexBytes(Rep(20, 204))
  ELSE IF c = 5 THEN NHexBytes(Rep(32, 5))
  ELSE IF c \in {6, 7, 10} THEN NStr("0x")
  ELSE IF c = 8 THEN NNum("1")
  ELSE NArr(<<>>)
DomainDoc(cs) ==      \* cs: sequence of choices
  Doc(<< <<"EIP712Domain", TypeDef([i \in 1..Len(cs) |-> Member(ChoiceName(cs[i]), ChoiceType(cs[i]))])>>,
         <<"M", TypeDef(<<Member("x", "uint256")>>)>> >>,
      "M",
      \* a repeated member name gives a repeated key; the last value wins in the implementation's map
      NObj([i \in 1..Len(cs) |-> <<ChoiceName(cs[i]), ChoiceValue(cs[i])>>]),
      NObj(<< <<"x", NNum("7")>> >>))
\* domain documents must not have duplicate JSON keys (an open class): keep the first value per name
DedupDomainDoc(cs) ==
  LET keep == SelectSeq([i \in 1..Len(cs) |-> <<i, cs[i]>>],
                        LAMBDA p : \A q \in 1..(p[1] - 1) : ChoiceName(cs[q]) # ChoiceName(p[2]))
  IN  Doc(<< <<"EIP712Domain", TypeDef([i \in 1..Len(cs) |-> Member(ChoiceName(cs[i]), ChoiceType(cs[i]))])>>,
             <<"M", TypeDef(<<Member("x", "uint256")>>)>> >>,
          "M",
          NObj([i \in 1..Len(keep) |-> <<ChoiceName(keep[i][2]), ChoiceValue(keep[i][2])>>]),
          NObj(<< <<"x", NNum("7")>> >>))

\* sequence number -> sequence of `len` choices in base 11
SeqNo(len, k) == [i \in 1..len |-> 1 + ((k \div (11 ^ (len - i))) % 11)]
\* all sequences up to length MaxAll: 1 + 11 + 121 + ...
MaxAll == IF Thorough THEN 4 ELSE 3
NAllSeqs == (11 ^ (MaxAll + 1) - 1) \div 10
AllSeqAt(j) ==
  LET len == CHOOSE l \in 0..MaxAll : (11 ^ l - 1) \div 10 < j /\ j <= (11 ^ (l + 1) - 1) \div 10
      k   == j - 1 - (11 ^ len - 1) \div 10
  IN  TItem("domain_all", DedupDomainDoc(SeqNo(len, k)))

\* all 326 duplicate-free orderings of subsets of the five standard members (correct types)
Orderings == SetToSeq({s \in UNION {[1..k -> 1..5] : k \in 0..5} : \A a, b \in DOMAIN s : a # b => s[a] # s[b]})
OrderingAt(j) == TItem("domain_orderings", DedupDomainDoc(Orderings[j]))
\* one wrong type in each position of each of the 31 well-formed sequences
Subseqs == SetToSeq({s \in UNION {[1..k -> 1..5] : k \in 1..5} : \A a, b \in DOMAIN s : a < b => s[a] < s[b]})
OneWrongAt(j) ==     \* j in 1..(31 * 5): positions beyond the length wrap
  LET s == Subseqs[1 + ((j - 1) \div 5)]
      p == 1 + ((j - 1) % Len(s))
  IN  TItem("domain_one_wrong", DedupDomainDoc([s EXCEPT ![p] = s[p] + 5]))
\* every well-formed member sequence (31) with ONE more member inserted at every position - a foreign member, a repeated
\* standard member, a standard member with a wrong type - and with two foreign members appended: a valid beginning,
\* middle or end does not make a domain type valid
ExtraChoices == <<11, 1, 3, 5, 8>>
NPlusExtra == 31 * 6 * Len(ExtraChoices) + 31
PlusExtraAt(j) ==
  IF j <= 31 * 6 * Len(ExtraChoices) THEN
    LET s   == Subseqs[1 + ((j - 1) % 31)]
        pos == ((j - 1) \div 31) % 6                      \* insert after the first pos members (clipped to the length)
        x   == ExtraChoices[1 + ((j - 1) \div (31 * 6))]
        at  == IF pos > Len(s) THEN Len(s) ELSE pos
        seq == SubSeq(s, 1, at) \o <<x>> \o SubSeq(s, at + 1, Len(s))
    IN  TItem("domain_wellformed_plus_one", DedupDomainDoc(seq))
  ELSE TItem("domain_wellformed_plus_one", DedupDomainDoc(Subseqs[j - 31 * 6 * Len(ExtraChoices)] \o <<11, 11>>))
\* domain members whose NAME or TYPE text contains the separators of encodeType (comma, blank, parentheses) so that one
\* ill-formed member reads like several well-formed ones when the type is taken apart as text
SepMembers == <<
  <<"name,string version", "string">>, <<"name", "string name,string">>, <<"version", "string name,string">>, <<"chainId", "string name,uint256">>,
  <<"name) EIP712Domain(string version", "string">>, <<"name", "string)">>, <<"name version", "string">>, <<"name,uint256 chainId", "string">>,
  <<"salt", "string name,bytes32">>, <<"name", "string,string">>, <<",name", "string">>, <<"name,", "string">>, <<"name", ",string">> >>
NSepMembers == 2 * Len(SepMembers)
SepMemberAt(j) ==
  LET sm == SepMembers[1 + ((j - 1) % Len(SepMembers))]
      \* the odd type name is also DEFINED as a memberless struct in the second half (so that only the domain rule refuses)
      def == j > Len(SepMembers)
      val == IF def /\ sm[2] \notin {"string"} THEN NObj(<<>>) ELSE NStr("App")
  IN  TItem("domain_separators_in_names",
            Doc(<< <<"EIP712Domain", TypeDef(<<Member(sm[1], sm[2])>>)>>, <<"M", TypeDef(<<Member("x", "uint256")>>)>> >>
                \o (IF def /\ sm[2] # "string" THEN << <<sm[2], TypeDef(<<>>)>> >> ELSE <<>>),
                "M", NObj(<< <<sm[1], val>> >>), NObj(<< <<"x", NNum("7")>> >>)))
NLongSeqs == IF Thorough THEN 20000 ELSE 300
LongSeqAt(j) ==
  LET len == 4 + PrngNat(K("dl", <<j>>), 4)
  IN  TItem("domain_long", DedupDomainDoc([i \in 1..len |-> 1 + PrngNat(K("dc", <<j, i>>), 11)]))
\* NEAR-MISS types of the standard members: spellings that a lenient comparison could take for the standard type -
\* other case, blanks, leading zeros, a sign, neighbouring widths, array forms, synonyms, and widths that ALIAS the
\* standard width when the number is truncated to 8, 16, 32 or 64 bits (256 + 2^k, 32 + 2^k).  The value conforms
\* to the standard type, so only the type rule can refuse.
NearMiss == <<
  <<"string", "String", "STRING", "string ", " string", "bytes", "string[]", "string[1]", "str", "string1", "string0", "char[]", "text">>,
  <<"String", "string\n", "string\t", "bytes", "strings", "string[]", "stringstring", "string256", "utf8", "bytes32">>,
  <<"uint", "uint255", "uint248", "uint264", "uint0256", "uint 256", "Uint256", "UINT256", "int256", "uint256[]", "uint256[1]",
    "uint512", "uint65792", "uint4294967552", "uint18446744073709551872", "uint256 ", " uint256", "uint+256", "uint2560", "uint25",
    "u256", "bytes32", "number", "uint256_t", "uint-256", "uint1256", "uint25 6", "uint8", "uint128", "uint256x">>,
  <<"Address", "ADDRESS", "address payable", "address[]", "address[1]", "bytes20", "uint160", "address ", " address", "addres", "addresss",
    "address20", "contract", "bytes">>,
  <<"bytes", "bytes31", "bytes33", "bytes032", "Bytes32", "BYTES32", "bytes32[]", "bytes32[1]", "uint256", "bytes288", "bytes65568",
    "bytes4294967328", "bytes18446744073709551648", "byte32", "bytes 32", "bytes32 ", " bytes32", "bytes+32", "bytes320", "bytes3", "byte[32]">> >>
StdValue(m) ==
  IF m \in {1, 2} THEN NStr("v" \o ToString(m)) ELSE IF m = 3 THEN NNum("1")
  ELSE IF m = 4 THEN NHexBytes(Rep(20, 204)) ELSE NHexBytes(Rep(32, 5))
NearMissOffsets == [m \in 1..6 |-> IF m = 1 THEN 0 ELSE Len(NearMiss[1]) + (IF m > 2 THEN Len(NearMiss[2]) ELSE 0) + (IF m > 3 THEN Len(NearMiss[3]) ELSE 0)
                                    + (IF m > 4 THEN Len(NearMiss[4]) ELSE 0) + (IF m > 5 THEN Len(NearMiss[5]) ELSE 0)]
NNearMiss == 2 * NearMissOffsets[6]
NearMissAt(j) ==
  LET full == j > NearMissOffsets[6]                      \* alone / inside the complete five-member domain
      k    == IF full THEN j - NearMissOffsets[6] ELSE j
      m    == CHOOSE q \in 1..5 : NearMissOffsets[q] < k /\ k <= NearMissOffsets[q + 1]
      ty   == NearMiss[m][k - NearMissOffsets[m]]
      ms   == IF full THEN <<1, 2, 3, 4, 5>> ELSE <<m>>
  IN  TItem("domain_near_miss",
            Doc(<< <<"EIP712Domain", TypeDef([i \in 1..Len(ms) |-> Member(StdNames[ms[i]], IF ms[i] = m THEN ty ELSE StdTypes[ms[i]])])>>,
                   <<"M", TypeDef(<<Member("x", "uint256")>>)>> >>,
                "M", NObj([i \in 1..Len(ms) |-> <<StdNames[ms[i]], StdValue(ms[i])>>]), NObj(<< <<"x", NNum("7")>> >>)))

NoDomainTypeDoc ==
  TItem("domain_missing", Doc(<< <<"M", TypeDef(<<Member("x", "uint256")>>)>> >>, "M", NObj(<<>>), NObj(<< <<"x", NNum("7")>> >>)))

\* ---- reference graphs (C08 i) --------------------------------------------------------
\* struct names chosen so that byte order, insertion order and case-insensitive order all differ
GNames == <<"B", "a", "Aa">>
MaxRefs == IF Thorough THEN 3 ELSE 2
NLists == (3 ^ (MaxRefs + 1) - 1) \div 2              \* reference lists of length 0..MaxRefs over 3 types
ListNo(k) ==       \* k in 0..NLists-1
  LET len == CHOOSE l \in 0..MaxRefs : (3 ^ l - 1) \div 2 <= k /\ k < (3 ^ (l + 1) - 1) \div 2
      r   == k - (3 ^ len - 1) \div 2
  IN  [i \in 1..len |-> 1 + ((r \div (3 ^ (len - i))) % 3)]
NGraphs == NLists * NLists * NLists * (IF Thorough THEN 3 ELSE 1)
\* reference form of member j of type t: arrays always allowed; the plain form only "downhill"
\* (towards a higher type index) so that a finite value exists
RefForm(t, j, target) ==
  LET f == (t + j) % 4 IN
  IF f = 0 /\ target > t THEN <<"", "plain">>
  ELSE IF f = 1 THEN <<"[]", "dyn">>
  ELSE IF f = 2 THEN <<"[2][]", "dyn">>
  ELSE <<"[][1]", "fix1">>
RECURSIVE GraphValue(_, _, _)
GraphValue(tab, t, depth) ==
  NObj([j \in 1..Len(tab[t]) |->
          LET form == RefForm(t, j, tab[t][j]) IN
          <<"m" \o ToString(j),
            IF form[2] = "plain" THEN GraphValue(tab, tab[t][j], depth + 1)
            ELSE IF form[2] = "dyn" THEN NArr(<<>>)
            ELSE NArr(<<NArr(<<>>)>>)>>]
       \o << <<"x", NNum(ToString(t))>> >>)
GraphAt(j) ==
  LET g    == (j - 1) % (NLists * NLists * NLists)
      prim == IF Thorough THEN 1 + ((j - 1) \div (NLists * NLists * NLists)) ELSE 1 + (g % 3)
      tab  == <<ListNo(g % NLists), ListNo((g \div NLists) % NLists), ListNo(g \div (NLists * NLists))>>
      def(t) == <<GNames[t], TypeDef([m \in 1..Len(tab[t]) |->
                                        Member("m" \o ToString(m), GNames[tab[t][m]] \o RefForm(t, m, tab[t][m])[1])]
                                     \o <<Member("x", "uint8")>>)>>
  IN  TItem("graph", Doc(<<NameOnlyDomainType, def(1), def(2), def(3)>>, GNames[prim], NameOnlyDomain,
                         GraphValue(tab, prim, 0)))

\* ---- atomic types x boundary values x positions (C08 ii) -----------------------------------
\* atom a in 1..100: bytes1..32, uint8..256, int8..256, bool, address, string, bytes
AtomName(a) ==
  IF a <= 32 THEN "bytes" \o ToString(a)
  ELSE IF a <= 64 THEN "uint" \o ToString(8 * (a - 32))
  ELSE IF a <= 96 THEN "int" \o ToString(8 * (a - 64))
  ELSE <<"bool", "address", "string", "bytes">>[a - 96]
\* value v in 0..3 of atom a (a conforming JSON value)
AtomValue(a, v, r) ==
  IF a <= 32 THEN NHexBytes(IF v = 0 THEN Zeros(a) ELSE IF v = 1 THEN Rep(a, 255) ELSE Prng(K("bv", r), a))
  ELSE IF a <= 64 THEN
    LET n == 8 * (a - 32)
        val == IF v = 0 THEN <<>> ELSE IF v = 1 THEN <<1>> ELSE IF v = 2 THEN BnSub(BnPow2(n), <<1>>) ELSE BnNorm(Prng(K("uv", r), n \div 8))
    IN  IF v % 2 = 0 THEN NDecStr(val) ELSE NHexQty(val)
  ELSE IF a <= 96 THEN
    LET n == 8 * (a - 64)
        mag == IF v = 0 THEN BnPow2(n - 1) ELSE IF v = 1 THEN <<1>> ELSE IF v = 2 THEN <<>> ELSE BnSub(BnPow2(n - 1), <<1>>)
        neg == v < 2
    IN  NStr((IF neg THEN "-" ELSE "") \o Utf8ToStr(DecCodes(BnToDec(mag))))
  ELSE IF a = 97 THEN NBool(v % 2 = 0)
  ELSE IF a = 98 THEN NHexBytes(IF v = 0 THEN Zeros(20) ELSE IF v = 1 THEN Rep(20, 255) ELSE Addr(r))
  ELSE IF a = 99 THEN NStr(<<"", "hello", CpsToStr(<<103, 114, 252, 223, 32, 100, 105, 99, 104>>),
                             CpsToStr(<<28450, 23383, 32, 128512, 34, 92, 10>>)>>[1 + v])
  ELSE NHexBytes(Prng(K("dv", r), <<0, 1, 31, 33>>[1 + v]))
\* position p in 0..3: top-level member, array element, element of T[2][], member of a nested struct
NAtoms == 100 * 4 * 4
AtomAt(j) ==
  LET a == 1 + ((j - 1) % 100)
      v == ((j - 1) \div 100) % 4
      p == (j - 1) \div 400
      ty == AtomName(a)
      val == AtomValue(a, v, <<j>>)
      val2 == AtomValue(a, (v + 1) % 4, <<j, 2>>)
  IN  TItem("atoms",
        IF p = 0 THEN Doc(<<NameOnlyDomainType, <<"P", TypeDef(<<Member("f", ty), Member("g", "uint8")>>)>> >>, "P", NameOnlyDomain,
                          NObj(<< <<"f", val>>, <<"g", NNum("3")>> >>))
        ELSE IF p = 1 THEN Doc(<<NameOnlyDomainType, <<"P", TypeDef(<<Member("f", ty \o "[]")>>)>> >>, "P", NameOnlyDomain,
                               NObj(<< <<"f", NArr(<<val, val2>>)>> >>))
        ELSE IF p = 2 THEN Doc(<<NameOnlyDomainType, <<"P", TypeDef(<<Member("f", ty \o "[2][]")>>)>> >>, "P", NameOnlyDomain,
                               NObj(<< <<"f", NArr(<<NArr(<<val, val2>>), NArr(<<val2, val>>)>>)>> >>))
        ELSE Doc(<<NameOnlyDomainType, <<"P", TypeDef(<<Member("inner", "Q"), Member("g", "bool")>>)>>,
                   <<"Q", TypeDef(<<Member("f", ty)>>)>> >>, "P", NameOnlyDomain,
                 NObj(<< <<"inner", NObj(<< <<"f", val>> >>)>>, <<"g", NBool(TRUE)>> >>)))

\* ---- struct types without members (hashStruct = keccak(typeHash)) ---------------------------------------
Memberless == <<
  Doc(<<NameOnlyDomainType, <<"Marker", TypeDef(<<>>)>> >>, "Marker", NameOnlyDomain, NObj(<<>>)),
  Doc(<<NameOnlyDomainType, <<"P", TypeDef(<<Member("m", "Marker"), Member("g", "uint8")>>)>>, <<"Marker", TypeDef(<<>>)>> >>, "P",
      NameOnlyDomain, NObj(<< <<"m", NObj(<<>>)>>, <<"g", NNum("1")>> >>)),
  Doc(<<NameOnlyDomainType, <<"P", TypeDef(<<Member("ms", "Marker[]")>>)>>, <<"Marker", TypeDef(<<>>)>> >>, "P",
      NameOnlyDomain, NObj(<< <<"ms", NArr(<<NObj(<<>>), NObj(<<>>)>>)>> >>)),
  Doc(<<NameOnlyDomainType, <<"P", TypeDef(<<Member("ms", "Marker[2][]")>>)>>, <<"Marker", TypeDef(<<>>)>> >>, "P",
      NameOnlyDomain, NObj(<< <<"ms", NArr(<<NArr(<<NObj(<<>>), NObj(<<>>)>>)>>)>> >>)),
  Doc(<<NameOnlyDomainType, <<"P", TypeDef(<<Member("q", "Q")>>)>>, <<"Q", TypeDef(<<Member("m", "Marker")>>)>>, <<"Marker", TypeDef(<<>>)>> >>,
      "P", NameOnlyDomain, NObj(<< <<"q", NObj(<< <<"m", NObj(<<>>)>> >>)>> >>)),
  Doc(<<NameOnlyDomainType, <<"P", TypeDef(<<Member("e", "uint8[]"), Member("f", "string[0]"), Member("ms", "Marker[]")>>)>>,
        <<"Marker", TypeDef(<<>>)>> >>, "P", NameOnlyDomain,
      NObj(<< <<"e", NArr(<<>>)>>, <<"f", NArr(<<>>)>>, <<"ms", NArr(<<>>)>> >>))
>>
MemberlessAt(j) == TItem("memberless", Memberless[j])

\* ---- dependency name order: byte-wise order of the NAMES (not of the formatted definitions) ----------------
\* sets of struct names with prefix pairs continued by '$' (below '('), digits, upper / lower case, '_'
NameSets == << <<"Asset", "Asset$Info">>, <<"A", "A$", "A0", "AA", "A_", "Aa">>, <<"x", "X", "x1", "x$y", "xy", "x_y">>,
               <<"$", "_", "a", "Z">>, <<"T", "T$", "T$$", "T$a">>, <<"ab", "a", "abc", "a$c", "aB">> >>
NameOrderAt(j) ==
  LET names == NameSets[1 + ((j - 1) % Len(NameSets))]
      rev   == (j - 1) \div Len(NameSets) = 1                 \* members (and type table) in reverse order
      ord   == IF rev THEN [i \in 1..Len(names) |-> names[Len(names) + 1 - i]] ELSE names
      \* every named type has one member; the later ones also refer to the first
      def(i) == <<ord[i], TypeDef(<<Member("v", "uint8")>> \o (IF i > 1 THEN <<Member("r", ord[1] \o "[]")>> ELSE <<>>))>>
      val(i) == NObj(<< <<"v", NNum(ToString(i))>> >> \o (IF i > 1 THEN << <<"r", NArr(<<>>)>> >> ELSE <<>>))
  IN  TItem("name_order",
        Doc(<<NameOnlyDomainType, <<"P", TypeDef([i \in 1..Len(ord) |-> Member("m" \o ToString(i), ord[i])])>> >> \o [i \in 1..Len(ord) |-> def(i)],
            "P", NameOnlyDomain, NObj([i \in 1..Len(ord) |-> <<"m" \o ToString(i), val(i)>>])))
NNameOrder == 2 * Len(NameSets)

\* ---- PRNG documents (C08 iii) ------------------------------------------------------------------
RNames == <<"Order", "Asset", "person", "Leg", "Zeta">>
\* member kind code: <<atom a>>, or <<-t>> struct t, with array suffix list
RECURSIVE RandValue(_, _, _, _, _, _)
RandKindOf(nt, t, m, r) ==      \* kind descriptor of member m of type t: [base, sfx]
  LET c == PrngNat(K("mk", r \o <<t, m>>), 10)
      base == IF c < 6 THEN 1 + PrngNat(K("ma", r \o <<t, m>>), 100)               \* atom
              ELSE IF c < 8 /\ t < nt THEN 0 - (t + 1 + PrngNat(K("ms", r \o <<t, m>>), nt - t))    \* plain struct, downhill
              ELSE IF c < 8 THEN 97
              ELSE 0 - (1 + PrngNat(K("mr", r \o <<t, m>>), nt))                  \* struct through an array, any target
      sfx  == IF c < 6 THEN <<<<>>, <<>>, <<-1>>, <<2>>, <<-1, 2>>, <<3, -1>>>>[1 + PrngNat(K("mx", r \o <<t, m>>), 6)]
              ELSE IF c < 8 THEN <<>>
              ELSE <<<<-1>>, <<-1, 1>>, <<2, -1>>>>[1 + PrngNat(K("my", r \o <<t, m>>), 3)]
  IN  [base |-> base, sfx |-> sfx]
SfxText(sfx) == LET RECURSIVE go(_)
                    go(i) == IF i > Len(sfx) THEN "" ELSE (IF sfx[i] < 0 THEN "[]" ELSE "[" \o ToString(sfx[i]) \o "]") \o go(i + 1)
                IN  go(1)
RandTypeText(kd) == (IF kd.base > 0 THEN AtomName(kd.base) ELSE RNames[0 - kd.base]) \o SfxText(kd.sfx)
\* d: the document key (member kinds depend on it only); r: the value key
RandStruct(nt, nm, t, depth, d, r) ==
  NObj([m \in 1..nm[t] |-> <<"f" \o ToString(m), RandValue(nt, nm, RandKindOf(nt, t, m, d), depth, d, r \o <<t, m, depth>>)>>])
\* value of kind kd: arrays are peeled from the LAST suffix inwards
RandValue(nt, nm, kd, depth, d, r) ==
  IF kd.sfx # <<>> THEN
    LET last == kd.sfx[Len(kd.sfx)]
        len  == IF last >= 0 THEN last
                ELSE IF depth >= 3 THEN 0 ELSE PrngNat(K("al", r), 3)
        inner == [kd EXCEPT !.sfx = SubSeq(kd.sfx, 1, Len(kd.sfx) - 1)]
    IN  NArr([i \in 1..len |-> RandValue(nt, nm, inner, depth + 1, d, r \o <<i>>)])
  ELSE IF kd.base > 0 THEN AtomValue(kd.base, PrngNat(K("av", r), 4), r)
  ELSE RandStruct(nt, nm, 0 - kd.base, depth + 1, d, r)
NRandDocs == IF Thorough THEN 25000 ELSE 800
RandDocAt(j) ==
  LET nt == 1 + PrngNat(K("nt", <<j>>), 5)
      nm == [t \in 1..nt |-> 1 + PrngNat(K("nm", <<j, t>>), 6)]
      \* fixed-size arrays of structs reaching back could recurse forever: struct-through-array kinds use a
      \* dynamic dimension somewhere, and dynamic dimensions are empty at depth >= 3
      def(t) == <<RNames[t], TypeDef([m \in 1..nm[t] |-> Member("f" \o ToString(m), RandTypeText(RandKindOf(nt, t, m, <<j>>)))])>>
      dsel == Subseqs[1 + PrngNat(K("ds", <<j>>), 31)]
  IN  TItem("random",
        Doc(<< <<"EIP712Domain", TypeDef([i \in 1..Len(dsel) |-> Member(StdNames[dsel[i]], StdTypes[dsel[i]])])>> >>
              \o [t \in 1..nt |-> def(t)],
            RNames[1],
            NObj([i \in 1..Len(dsel) |-> <<StdNames[dsel[i]], ChoiceValue(dsel[i])>>]),
            RandStruct(nt, nm, 1, 0, <<j>>, <<j>>)))
=============================================================================
