------------------------------- MODULE Bytes -------------------------------
(***************************************************************************)
(* Byte sequences and arbitrary-precision naturals as big-endian byte      *)
(* sequences ("limbs" of base 256).  TLC integers are 32 bit, so no value  *)
(* above 2^31 ever appears as a TLC integer: 256-bit quantities are always *)
(* byte sequences and every intermediate here stays below 2^31.            *)
(***************************************************************************)
EXTENDS Integers, Sequences

Byte == 0..255

Max2(a, b) == IF a >= b THEN a ELSE b
Min2(a, b) == IF a <= b THEN a ELSE b

Rep(n, x)  == [i \in 1..n |-> x]
Zeros(n)   == Rep(n, 0)
Take(b, n) == SubSeq(b, 1, Min2(n, Len(b)))
Drop(b, n) == SubSeq(b, n + 1, Len(b))
LastOf(b)  == b[Len(b)]
PadLeft(b, n)  == IF Len(b) >= n THEN b ELSE Zeros(n - Len(b)) \o b
PadRight(b, n) == IF Len(b) >= n THEN b ELSE b \o Zeros(n - Len(b))
IsByteSeq(b) == \A i \in 1..Len(b) : b[i] \in Byte

\* Mat(s): the same sequence, materialised.  TLC represents [i \in 1..n |-> e(i)] lazily and
\* re-evaluates e(i) on EVERY application and every Len; concatenating with <<>> forces it into a
\* tuple once.  Use it wherever a constructed sequence is indexed more than once.
Mat(s) == s \o <<>>

\* Concatenation of a sequence of sequences.
\* (by halves: n log n element copies instead of n^2 / 2 - sequences of tens of thousands of pieces occur)
RECURSIVE ConcatRange(_, _, _)
ConcatRange(ss, lo, hi) ==
  IF lo > hi THEN <<>> ELSE IF lo = hi THEN ss[lo]
  ELSE LET mid == (lo + hi) \div 2 IN ConcatRange(ss, lo, mid) \o ConcatRange(ss, mid + 1, hi)
Concat(ss) == LET t == Mat(ss) IN ConcatRange(t, 1, Len(t))

RECURSIVE SumLenFrom(_, _)
SumLenFrom(ss, i) == IF i > Len(ss) THEN 0 ELSE Len(ss[i]) + SumLenFrom(ss, i + 1)
SumLen(ss) == SumLenFrom(ss, 1)

\* Lexicographic comparison of two sequences of naturals: -1, 0, 1
\* (a proper prefix is smaller).
RECURSIVE LexCmpFrom(_, _, _)
LexCmpFrom(a, b, i) ==
  IF i > Len(a) /\ i > Len(b) THEN 0
  ELSE IF i > Len(a) THEN -1
  ELSE IF i > Len(b) THEN 1
  ELSE IF a[i] < b[i] THEN -1
  ELSE IF a[i] > b[i] THEN 1
  ELSE LexCmpFrom(a, b, i + 1)
LexCmp(a, b) == LexCmpFrom(a, b, 1)

-----------------------------------------------------------------------------
(* Naturals as big-endian byte strings.  The canonical ("normal") form has *)
(* no leading zero byte; zero is the empty string.                         *)

RECURSIVE FirstNonZero(_, _)
FirstNonZero(b, i) == IF i > Len(b) \/ b[i] # 0 THEN i ELSE FirstNonZero(b, i + 1)

BnNorm(b)   == SubSeq(b, FirstNonZero(b, 1), Len(b))
BnIsZero(b) == FirstNonZero(b, 1) > Len(b)
BnFixed(b, n) == PadLeft(BnNorm(b), n)       \* caller guarantees it fits

BnCmp(a, b) ==
  LET x == BnNorm(a)
      y == BnNorm(b)
  IN  IF Len(x) < Len(y) THEN -1
      ELSE IF Len(x) > Len(y) THEN 1
      ELSE LexCmp(x, y)
BnLt(a, b) == BnCmp(a, b) < 0
BnLe(a, b) == BnCmp(a, b) <= 0
BnEq(a, b) == BnCmp(a, b) = 0

RECURSIVE AddGo(_, _, _, _, _)
AddGo(x, y, i, carry, acc) ==
  IF i = 0 THEN <<carry>> \o acc
  ELSE LET s == x[i] + y[i] + carry
       IN  AddGo(x, y, i - 1, s \div 256, <<s % 256>> \o acc)
BnAdd(a, b) ==
  LET n == Max2(Len(a), Len(b))
  IN  BnNorm(AddGo(PadLeft(a, n), PadLeft(b, n), n, 0, <<>>))

\* a - b for a >= b
RECURSIVE SubGo(_, _, _, _, _)
SubGo(x, y, i, borrow, acc) ==
  IF i = 0 THEN acc
  ELSE LET d == x[i] - y[i] - borrow
       IN  IF d < 0 THEN SubGo(x, y, i - 1, 1, <<d + 256>> \o acc)
                    ELSE SubGo(x, y, i - 1, 0, <<d>> \o acc)
BnSub(a, b) ==
  LET n == Max2(Len(a), Len(b))
  IN  BnNorm(SubGo(PadLeft(a, n), PadLeft(b, n), n, 0, <<>>))

\* a * m + c for small m, c (m, c < 2^22)
RECURSIVE MulGo(_, _, _, _, _)
MulGo(x, m, i, carry, acc) ==
  IF i = 0 THEN (IF carry = 0 THEN acc
                 ELSE MulGo(<<>>, m, 0, carry \div 256, <<carry % 256>> \o acc))
  ELSE LET s == x[i] * m + carry
       IN  MulGo(x, m, i - 1, s \div 256, <<s % 256>> \o acc)
BnMulAddSmall(a, m, c) == BnNorm(MulGo(a, m, Len(a), c, <<>>))

\* <<quotient, remainder>> of a by small d (0 < d < 2^22)
RECURSIVE DivGo(_, _, _, _, _)
DivGo(x, d, i, rem, acc) ==
  IF i > Len(x) THEN <<BnNorm(acc), rem>>
  ELSE LET t == rem * 256 + x[i]
       IN  DivGo(x, d, i + 1, t % d, Append(acc, t \div d))
BnDivModSmall(a, d) == DivGo(a, d, 1, 0, <<>>)

RECURSIVE BnFromNat(_)
BnFromNat(n) == IF n = 0 THEN <<>> ELSE Append(BnFromNat(n \div 256), n % 256)

\* only for values known to be below 2^31
RECURSIVE ToNatGo(_, _, _)
ToNatGo(b, i, acc) == IF i > Len(b) THEN acc ELSE ToNatGo(b, i + 1, acc * 256 + b[i])
BnToNat(b) == ToNatGo(BnNorm(b), 1, 0)
BnFitsNat(b) == Len(BnNorm(b)) <= 3 \/ (Len(BnNorm(b)) = 4 /\ BnNorm(b)[1] < 128)

BnOne == <<1>>
\* 2^k
BnPow2(k) == <<2 ^ (k % 8)>> \o Zeros(k \div 8)
BnBitLen(b) ==
  LET x == BnNorm(b)
      RECURSIVE bits(_)
      bits(v) == IF v = 0 THEN 0 ELSE 1 + bits(v \div 2)
  IN  IF x = <<>> THEN 0 ELSE 8 * (Len(x) - 1) + bits(x[1])
BnIsOdd(b) == Len(b) > 0 /\ LastOf(b) % 2 = 1

\* a + b (mod m) for a, b < m
BnAddMod(a, b, m) ==
  LET s == BnAdd(a, b) IN IF BnLt(s, m) THEN s ELSE BnSub(s, m)

\* 2^256 - a for 0 < a <= 2^256  (two's complement of a 256-bit magnitude), 32 bytes
BnNeg256(a) == BnFixed(BnSub(BnPow2(256), a), 32)

-----------------------------------------------------------------------------
(* Decimal and hexadecimal digit strings (sequences of digit VALUES).      *)

\* digits: sequence over 0..9, any length; leading zeros allowed
RECURSIVE FromDecGo(_, _, _)
FromDecGo(ds, i, acc) ==
  IF i > Len(ds) THEN acc
  ELSE IF i + 3 <= Len(ds)
       THEN FromDecGo(ds, i + 4,
              BnMulAddSmall(acc, 10000, ds[i] * 1000 + ds[i+1] * 100 + ds[i+2] * 10 + ds[i+3]))
       ELSE FromDecGo(ds, i + 1, BnMulAddSmall(acc, 10, ds[i]))
BnFromDec(ds) == FromDecGo(ds, 1, <<>>)

\* canonical decimal digits (no leading zero; zero is <<0>>)
RECURSIVE ToDecGo(_, _)
ToDecGo(b, acc) ==
  IF BnIsZero(b) THEN acc
  ELSE LET qr == BnDivModSmall(b, 10) IN ToDecGo(qr[1], <<qr[2]>> \o acc)
BnToDec(b) == IF BnIsZero(b) THEN <<0>> ELSE ToDecGo(BnNorm(b), <<>>)

\* digits: sequence over 0..15, any length
BnFromHexDigits(hs) ==
  LET n == Len(hs)
      p == IF n % 2 = 1 THEN <<0>> \o hs ELSE hs
  IN  BnNorm([i \in 1..(Len(p) \div 2) |-> p[2*i - 1] * 16 + p[2*i]])

\* canonical hex digits (no leading zero; zero is <<0>>)
BnToHexDigits(b) ==
  LET x == BnNorm(b)
      all == [i \in 1..(2 * Len(x)) |-> IF i % 2 = 1 THEN x[(i + 1) \div 2] \div 16 ELSE x[i \div 2] % 16]
  IN  IF x = <<>> THEN <<0>> ELSE IF all[1] = 0 THEN Tail(all) ELSE all

-----------------------------------------------------------------------------
(* ASCII codes.                                                            *)

IsDigitCode(c)    == c >= 48 /\ c <= 57
IsLowerHexCode(c) == c >= 97 /\ c <= 102
IsUpperHexCode(c) == c >= 65 /\ c <= 70
IsHexCode(c)      == IsDigitCode(c) \/ IsLowerHexCode(c) \/ IsUpperHexCode(c)
HexVal(c) == IF IsDigitCode(c) THEN c - 48
             ELSE IF IsLowerHexCode(c) THEN c - 87
             ELSE c - 55
HexCodeLower(v) == IF v < 10 THEN 48 + v ELSE 87 + v
HexCodeUpper(v) == IF v < 10 THEN 48 + v ELSE 55 + v
AllHex(cs)   == \A i \in 1..Len(cs) : IsHexCode(cs[i])
AllDigit(cs) == \A i \in 1..Len(cs) : IsDigitCode(cs[i])

\* lower-case hex text (ASCII codes) of a byte string, two digits per byte
HexLower(b) == [i \in 1..(2 * Len(b)) |->
                  IF i % 2 = 1 THEN HexCodeLower(b[(i + 1) \div 2] \div 16) ELSE HexCodeLower(b[i \div 2] % 16)]
\* bytes of an even-length all-hex code sequence
HexPairs(cs) == [i \in 1..(Len(cs) \div 2) |-> HexVal(cs[2*i - 1]) * 16 + HexVal(cs[2*i])]

DecCodes(ds)  == [i \in 1..Len(ds) |-> 48 + ds[i]]            \* digit values -> ASCII
DecVals(cs)   == [i \in 1..Len(cs) |-> cs[i] - 48]
HexVals(cs)   == [i \in 1..Len(cs) |-> HexVal(cs[i])]
\* decimal ASCII of a small natural
NatDecCodes(n) == DecCodes(BnToDec(BnFromNat(n)))
=============================================================================
