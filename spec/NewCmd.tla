-------------------------------- MODULE NewCmd --------------------------------
(***************************************************************************)
(* `hdwallet new` with concrete data: the vanity prefix grammar, the       *)
(* candidate test (address of the selected account of the candidate        *)
(* phrase starts with the requested nibbles) and the instantiation of      *)
(* Vanity.tla with them.  Anchors: src/cmd/new.rs (Prefix, run).           *)
(***************************************************************************)
EXTENDS Bytes, Prim, Ecdsa, Bip39, HdPath, Bip32, Args

\* "0x" then 1..40 hex digits of either case -> their values.  Open: no "0x", no digits, more than 40.
ParsePrefix(cs) ==
  IF ~(Len(cs) >= 2 /\ cs[1] = 48 /\ cs[2] = 120) THEN [c |-> "open", nibbles |-> <<>>]
  ELSE LET body == SubSeq(cs, 3, Len(cs)) IN
    IF body = <<>> \/ Len(body) > 40 THEN [c |-> "open", nibbles |-> <<>>]
    ELSE IF AllHex(body) THEN [c |-> "accept", nibbles |-> Mat(HexVals(body))]
    ELSE [c |-> "reject", nibbles |-> <<>>]

AddrNibble(addr, i) == IF i % 2 = 1 THEN addr[(i + 1) \div 2] \div 16 ELSE addr[i \div 2] % 16
HasPrefix(addr, nibbles) == \A i \in 1..Len(nibbles) : AddrNibble(addr, i) = nibbles[i]

\* cfg = [vanity, threads, nibbles, vpassword (code points), comps, words]
AddressOfPhrase(cfg, phrase) ==
  LET k == Derive(SeedOf(phrase, cfg.vpassword), cfg.comps) IN IF k.ok THEN AddressOf(k.k) ELSE <<>>
ConcreteMatches(cfg, phrase) ==
  LET a == AddressOfPhrase(cfg, phrase) IN a # <<>> /\ HasPrefix(a, cfg.nibbles)
ConcreteSupported(cfg) == cfg.words \in ValidCounts

\* the `new` command: c = [length, prefix, vpassword, vindex, vpath, threads], texts, "" = option not given
SmallNat(cs) == AllDigit(cs) /\ Len(cs) >= 1 /\ Len(cs) <= 4 /\ (Len(cs) = 1 \/ cs[1] # 48)
\* --language: only English exists; the name is matched case-insensitively (Language::from_str)
LanguageOf(c) == IF "language" \in DOMAIN c THEN c.language ELSE ""
LanguageOk(c) ==
  LET cs == StrToUtf8(LanguageOf(c))
  IN  cs = <<>> \/ [i \in 1..Len(cs) |-> IF cs[i] >= 65 /\ cs[i] <= 90 THEN cs[i] + 32 ELSE cs[i]] = StrToUtf8("english")
\* The command line of `new`.  Without a style the line is written as every workload wrote it before Args.tla existed
\* (-n, --language, -j, the vanity options in their long form, two tokens each); c.style = [opt, rev] writes every option
\* in the spelling opt of Args!Styles, in the order below or its reverse.  The meaning is the same (MC_Args: NewRoundTrip).
NewKeys == <<"language", "length", "prefix", "vpassword", "vindex", "vpath", "threads">>
NewVal(c, key) == IF key = "language" THEN LanguageOf(c) ELSE c[key]
NewArgv(c) ==
  IF "style" \notin DOMAIN c THEN
    <<"new">> \o (IF LanguageOf(c) # "" THEN <<"--language", LanguageOf(c)>> ELSE <<>>)
             \o (IF c.length # "" THEN <<"-n", c.length>> ELSE <<>>)
             \o (IF c.prefix # "" THEN <<"--vanity-prefix", c.prefix>> ELSE <<>>)
             \o (IF c.vpassword # "" THEN <<"--vanity-password", c.vpassword>> ELSE <<>>)
             \o (IF c.vindex # "" THEN <<"--vanity-account-index", c.vindex>> ELSE <<>>)
             \o (IF c.vpath # "" THEN <<"--vanity-hd-path", c.vpath>> ELSE <<>>)
             \o (IF c.threads # "" THEN <<"-j", c.threads>> ELSE <<>>)
  ELSE
    <<"new">> \o Concat([i \in 1..7 |-> LET key == NewKeys[IF c.style.rev THEN 8 - i ELSE i] IN
                                         IF NewVal(c, key) # "" THEN RenderOpt(key, NewVal(c, key), c.style.opt) ELSE <<>>])

VN == INSTANCE Vanity WITH Matches <- ConcreteMatches, Supported <- ConcreteSupported
=============================================================================
