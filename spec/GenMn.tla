------------------------------- MODULE GenMn -------------------------------
(***************************************************************************)
(* Workload families for mnemonic phrases / seeds / generation (Gen_C01,   *)
(* Gen_C02, Gen_C12).  Phrases are built by the specification itself       *)
(* (Bip39.tla): valid ones from entropy, invalid ones by controlled        *)
(* damage, so every item has a known class.                                 *)
(***************************************************************************)
EXTENDS DocAst, Bip39, IOUtils, TLC

Seed     == IF "VERIF_SEED" \in DOMAIN IOEnv THEN IOEnv.VERIF_SEED ELSE "0"
Thorough == "VERIF_TIER" \in DOMAIN IOEnv /\ IOEnv.VERIF_TIER = "thorough"
K(tag, nums) == Key(Seed \o "/" \o tag, nums)

MItem(op, fam, in) == [i |-> 0, op |-> op, fam |-> fam, in |-> in]

\* what `mnemonic_to_byte_length` computes for any n (used to build the ADVERSARIAL
\* phrases whose trailing bits match a truncated checksum under the range table)
NaiveLen(n) == ((n * 11 * 32) \div 33) \div 8

\* n word indices read from entropy || SHA-256(entropy): for n in ValidCounts with
\* Len(ent) = EntBytes(n) this is the valid phrase; for other n it is a phrase of list
\* words that a wrong length table would accept
IdxFromBuffer(ent, n) ==
  LET all == ent \o Sha256(ent)
      f(p) == BBit(all, p)
  IN  Mat([i \in 1..n |-> BitsVal(f, 11 * (i - 1), 11, 0)])

JoinWith(idx, sep) ==
  LET RECURSIVE go(_)
      go(i) == IF i > Len(idx) THEN "" ELSE (IF i = 1 THEN "" ELSE sep) \o Words[idx[i] + 1] \o go(i + 1)
  IN  go(1)
Phrase(idx) == JoinWith(idx, " ")

EntPattern(k, len, r) ==
  IF k = 0 THEN Zeros(len)
  ELSE IF k = 1 THEN Rep(len, 255)
  ELSE IF k = 2 THEN [i \in 1..len |-> (i * 37 + 11) % 256]
  ELSE Prng(K("ent", r), len)

\* ---- A: every word count 0..40 x 4 entropy patterns --------------------------
NCounts == 41 * 4
CountsAt(j) ==
  LET n == (j - 1) \div 4
      k == (j - 1) % 4
      len == IF n \in ValidCounts THEN EntBytes(n) ELSE IF NaiveLen(n) <= 32 THEN NaiveLen(n) ELSE 32
      idx == IF n = 0 THEN <<>> ELSE IdxFromBuffer(EntPattern(k, len, <<1, j>>), n)
  IN  MItem("mnemonic.parse", "counts", [text |-> Phrase(idx)])

\* ---- B: every single checksum bit flipped, and entropy bits flipped ------------
\* j -> (size s in 1..5, bit b): flips bit b (0-based from the END of the phrase bits)
SizeOf(s) == <<12, 15, 18, 21, 24>>[s]
FlipBit(idx, p) ==        \* flip bit p (0-based, big-endian) of the 11-bit groups
  LET i == 1 + (p \div 11)
      m == 2 ^ (10 - (p % 11))
  IN  [idx EXCEPT ![i] = IF (idx[i] \div m) % 2 = 1 THEN idx[i] - m ELSE idx[i] + m]
NFlips == 5 * 16
FlipsAt(j) ==
  LET n   == SizeOf(1 + ((j - 1) \div 16))
      b   == (j - 1) % 16                 \* the last 16 bits: all checksum bits and some entropy bits
      idx == IdxFromBuffer(EntPattern(3, EntBytes(n), <<2, j>>), n)
  IN  MItem("mnemonic.parse", "flip", [text |-> Phrase(FlipBit(idx, 11 * n - 1 - b))])

\* ---- C: an unknown token at some position ---------------------------------------
BadTokens == <<"abandonx", "zoo!", "abando", "Abandon", "ZOO", "0", "zooo">>
NUnknown == 5 * 7 * 4
UnknownAt(j) ==
  LET n   == SizeOf(1 + ((j - 1) \div 28))
      t   == 1 + (((j - 1) \div 4) % 7)
      pos == <<1, 2, n - 1, n>>[1 + ((j - 1) % 4)]
      idx == IdxFromBuffer(EntPattern(3, EntBytes(n), <<3, j>>), n)
      RECURSIVE go(_)
      go(i) == IF i > n THEN ""
               ELSE (IF i = 1 THEN "" ELSE " ") \o (IF i = pos THEN BadTokens[t] ELSE Words[idx[i] + 1]) \o go(i + 1)
  IN  MItem("mnemonic.parse", "unknown", [text |-> go(1)])

\* ---- D: every word at every position of a 24-word phrase (checksum recomputed) ---
\* position p in 1..23, word index v: replace, then re-derive entropy and checksum
WordPosStride == IF Thorough THEN 1 ELSE 16
NWordPos == 23 * (2048 \div WordPosStride)
WordPosAt(j) ==
  LET per == 2048 \div WordPosStride
      p   == 1 + ((j - 1) \div per)
      v   == (((j - 1) % per) * WordPosStride + p * 7) % 2048
      base == IdxFromBuffer(EntPattern(2, 32, <<>>), 24)
      mod  == [base EXCEPT ![p] = v]
      ent  == EntropyOfIdx(mod)
  IN  MItem("mnemonic.parse", "wordpos", [text |-> Phrase(IdxFromBuffer(ent, 24))])

\* ---- E: all 2048 candidates for the final word -----------------------------------
LastCounts == IF Thorough THEN <<12, 13, 14, 15, 16, 17, 18, 19, 20, 21, 22, 23, 24>> ELSE <<12, 13, 16, 18, 24>>
LastPrefixes == IF Thorough THEN 3 ELSE 1
NLastWord == Len(LastCounts) * LastPrefixes * 2048
LastWordAt(j) ==
  LET v    == (j - 1) % 2048
      q    == (j - 1) \div 2048
      n    == LastCounts[1 + (q % Len(LastCounts))]
      pre  == q \div Len(LastCounts)
      len  == IF NaiveLen(n) <= 32 THEN NaiveLen(n) ELSE 32
      idx  == IdxFromBuffer(EntPattern(3, len, <<5, n, pre>>), n)
  IN  MItem("mnemonic.parse", "lastword", [text |-> Phrase([idx EXCEPT ![n] = v])])

\* ---- F: whitespace layouts --------------------------------------------------------
StdSeps  == <<" ", "  ", "\t", "\n", "\r\n", " \t \n ">>
\* the other White_Space characters, as code points: VT, FF, NEL, NBSP, EM SPACE, LINE SEP, IDEOGRAPHIC SPACE,
\* OGHAM SPACE MARK, NARROW NO-BREAK SPACE
OpenSeps == <<11, 12, 133, 160, 8195, 8232, 12288, 5760, 8239>>
NLayouts == 5 * (Len(StdSeps) * 3 + Len(OpenSeps))
LayoutAt(j) ==
  LET per == Len(StdSeps) * 3 + Len(OpenSeps)
      n   == SizeOf(1 + ((j - 1) \div per))
      m   == (j - 1) % per
      idx == IdxFromBuffer(EntPattern(3, EntBytes(n), <<6, j>>), n)
  IN  IF m < Len(StdSeps) * 3 THEN
        LET sep == StdSeps[1 + (m % Len(StdSeps))]
            pad == m \div Len(StdSeps)          \* 0 none, 1 leading+trailing, 2 trailing newline
            body == JoinWith(idx, sep)
        IN  MItem("mnemonic.parse", "layout",
                  [text |-> IF pad = 0 THEN body ELSE IF pad = 1 THEN sep \o body \o sep ELSE body \o "\n"])
      ELSE MItem("mnemonic.parse", "layout_unicode",
                 [text |-> JoinWith(idx, CpsToStr(<<OpenSeps[m - Len(StdSeps) * 3 + 1]>>))])

\* ---- S: unknown-word sweep (run-length directive expanded by the executor) ------------------------------
\* 32 (thorough 64) directives of 3 (thorough 6) million pseudo-random lower-case tokens each, at rotating positions:
\* about 10^8 unknown words per run (a parse takes about a microsecond)
NSweep == IF Thorough THEN 64 ELSE 32
SweepAt(j) == MItem("mnemonic.sweep", "sweep", [count |-> IF Thorough THEN 6000000 ELSE 3000000,
                                                 seed |-> PrngNat(K("sweep", <<j>>), 8000000) + j, pos |-> 1 + (j % 12)])

\* ---- G: generation with injected entropy (one-hot, patterns, refusals) --------------
\* one-hot: every bit of every size
OneHotOffsets == <<0, 128, 288, 480, 704>>          \* cumulative bit counts of 16,20,24,28,32 bytes
NOneHot == 960
OneHotAt(j) ==
  LET s   == CHOOSE s \in 1..5 : j - 1 >= OneHotOffsets[s] /\ (s = 5 \/ j - 1 < OneHotOffsets[s + 1])
      bit == j - 1 - OneHotOffsets[s]
      len == EntBytes(SizeOf(s))
      feed == [i \in 1..len |-> IF i = 1 + (bit \div 8) THEN 2 ^ (7 - (bit % 8)) ELSE 0]
  IN  MItem("mnemonic.random", "onehot", [len |-> SizeOf(s), feed |-> BytesToHex(feed), fail_at |-> <<>>])

NRandFeed == 5 * (IF Thorough THEN 200 ELSE 24)
RandFeedAt(j) ==
  LET n == SizeOf(1 + ((j - 1) % 5))
      k == ((j - 1) \div 5) % 4
      \* feed longer than needed: surplus must not leak into (or shift) the phrase
      feed == EntPattern(IF k = 3 THEN 3 ELSE k, EntBytes(n), <<7, j>>)
  IN  MItem("mnemonic.random", "feed", [len |-> n, feed |-> BytesToHex(feed), fail_at |-> <<>>])

\* every requested length 0..40, with working entropy and with a refusing source
NGenLens == 41 * 3
GenLenAt(j) ==
  LET n == (j - 1) \div 3
      m == (j - 1) % 3
  IN  MItem("mnemonic.random", IF m = 0 THEN "genlen" ELSE "refuse",
            [len |-> n, feed |-> BytesToHex(Prng(K("gl", <<j>>), 40)),
             fail_at |-> IF m = 0 THEN <<>> ELSE IF m = 1 THEN <<0>> ELSE <<0, 1, 2, 3>>])

\* every list word replaced by its polynomial-hash twins (DocAst!PolyTwins: B in {31, 33, 37, 131, 257}, k = +-1, +-2, every
\* position) as the FIRST word of a 12-word phrase that is valid with the word itself: histories of 150 parses
PolyWordsPer == 6
NPolyWords == (2048 + PolyWordsPer - 1) \div PolyWordsPer
PolyWordAt(j) ==
  LET ws == [q \in 1..PolyWordsPer |-> (j - 1) * PolyWordsPer + q - 1]
      phraseOf(w, tok) ==        \* entropy whose first 11 bits are w, the rest zero
        LET ent == <<w \div 8, (w % 8) * 32>> \o Zeros(14)
            idx == IdxOfEntropy(ent)
        IN  tok \o " " \o JoinWith(SubSeq(idx, 2, 12), " ")
      stepsOf(w) == IF w > 2047 THEN <<>>
                    ELSE LET tw == PolyTwins(StrToUtf8(Words[w + 1]), 33)
                         IN  [q \in 1..Len(tw) |-> [op |-> "mnemonic.parse", in |-> [text |-> phraseOf(w, Utf8ToStr(tw[q]))]]]
  IN  MItem("seq", "polynomial_hash_twins", [steps |-> Concat([q \in 1..PolyWordsPer |-> stepsOf(ws[q])])])

\* every list word EXTENDED and SHORTENED, as the FIRST word of a 12-word phrase that is valid with the word itself: the
\* word + s, + x, + its own last letter, + NUL; the word without its last letter; its first four letters (the list is
\* unique in them - some wallets complete such prefixes, this one must not: an unknown word is refused); the word twice.
\* A lookup that truncates or pads its key (8 bytes, a fixed-width field) takes one of them for the word.  Histories of 16 words.
ExtWordsPer == 16
NExtWords == 2048 \div ExtWordsPer
ExtVariants(wb) ==
  LET n == Len(wb) IN
  SelectSeq(<<wb \o <<115>>, wb \o <<120>>, wb \o <<wb[n]>>, wb \o <<0>>, SubSeq(wb, 1, n - 1), Take(wb, 4), wb \o wb>>,
            LAMBDA v : ~IsWord(v))
ExtWordAt(j) ==
  LET phraseOf(w, tok) ==
        LET ent == <<w \div 8, (w % 8) * 32>> \o Zeros(14)
            idx == IdxOfEntropy(ent)
        IN  tok \o " " \o JoinWith(SubSeq(idx, 2, 12), " ")
      stepsOf(w) == LET vs == ExtVariants(StrToUtf8(Words[w + 1]))
                    IN  [q \in 1..Len(vs) |-> [op |-> "mnemonic.parse", in |-> [text |-> phraseOf(w, Utf8ToStr(vs[q]))]]]
  IN  MItem("seq", "word_extensions", [steps |-> Concat([q \in 1..ExtWordsPer |-> stepsOf((j - 1) * ExtWordsPer + q - 1)])])

\* requested lengths that ALIAS a supported length when the number - or the number times 4 / 32 / 11, the scalings the
\* arithmetic of a generator uses - is truncated to 8, 16, 32 or 64 bits: L + k 2^j for j in {8, 16, 31, 32, 59, 61, 62, 63}
AliasPows == <<8, 16, 31, 32, 59, 61, 62, 63>>
AliasLenText(j) ==        \* j in 1..(5 * 8 * 3)
  LET L == SizeOf(1 + ((j - 1) % 5))
      w == AliasPows[1 + (((j - 1) \div 5) % 8)]
      k == 1 + ((j - 1) \div 40)
  IN  Utf8ToStr(DecCodes(BnToDec(BnMulAddSmall(BnPow2(w), k, L))))
NAliasLens == 5 * 8 * 3
AliasLenAt(j) == MItem("mnemonic.random", "alias_lengths", [len |-> 0, len_text |-> AliasLenText(j), feed |-> BytesToHex(Prng(K("al", <<j>>), 40)), fail_at |-> <<>>])

\* the kinds of failure the source may report (errno of getentropy): EIO, EINTR, EAGAIN, ENOSYS, EFAULT, EPERM, EINVAL,
\* ENOMEM, and a failure that leaves errno 0; once, four times and sixteen times in a row.  Every one is a failure.
Errnos == <<5, 4, 11, 38, 14, 1, 22, 12, 0>>
FailRuns == <<<<0>>, <<0, 1, 2, 3>>, [i \in 1..16 |-> i - 1]>>
NErrno == Len(Errnos) * 5 * Len(FailRuns)
ErrnoAt(j) ==
  LET e == Errnos[1 + ((j - 1) % Len(Errnos))]
      s == 1 + (((j - 1) \div Len(Errnos)) % 5)
      f == FailRuns[1 + ((j - 1) \div (5 * Len(Errnos)))]
  IN  MItem("mnemonic.random", "refuse_errno",
            [len |-> SizeOf(s), feed |-> BytesToHex(Prng(K("ge", <<j>>), 40)), fail_at |-> f, errno |-> e])

\* real OS entropy (pass-through), logged by the interposed getentropy
NReal == IF Thorough THEN 200 ELSE 30
RealAt(j) ==
  [i |-> 0, op |-> "mnemonic.random", fam |-> "real",
   in |-> [len |-> SizeOf(1 + ((j - 1) % 5)), fail_at |-> <<>>]]      \* no feed: pass-through
=============================================================================
