SPECIFICATION Spec
CONSTANT Variant = "spec"
INVARIANT ClosureCorrect
INVARIANT PrimaryNeverRepeated
INVARIANT Bounded
PROPERTY Terminates
CHECK_DEADLOCK FALSE
