------------------------------- MODULE SigText -------------------------------
(***************************************************************************)
(* Textual signatures: 0x || hex64(r) || hex64(s) || hex2(27 + yParity).   *)
(* Anchors: src/account/signature.rs (Display, FromStr).                   *)
(***************************************************************************)
EXTENDS Bytes, Ecdsa

\* ASCII codes of the printed form; sig = [r, s (32 bytes), par]
PrintSig(sig) == <<48, 120>> \o HexLower(sig.r) \o HexLower(sig.s) \o HexLower(<<27 + sig.par>>)

\* [c |-> "accept"|"either"|"reject", sig, why]
ParseSig(raw) ==
  LET hasWs  == \E i \in 1..Len(raw) : raw[i] \in {32, 9, 10, 13}
      cs     == SelectSeq(raw, LAMBDA ch : ch \notin {32, 9, 10, 13})
      body   == IF Len(cs) >= 2 /\ cs[1] = 48 /\ cs[2] = 120 THEN SubSeq(cs, 3, Len(cs)) ELSE cs
  IN
  IF Len(body) # 130 THEN [c |-> "reject", why |-> "length"]
  ELSE IF ~AllHex(body) THEN [c |-> "reject", why |-> "non_hex"]
  ELSE
  LET bytes == HexPairs(body)
      r == SubSeq(bytes, 1, 32)
      s == SubSeq(bytes, 33, 64)
      v == bytes[65]
      upper == \E i \in 1..130 : IsUpperHexCode(body[i])
  IN  IF v \notin {27, 28} THEN [c |-> "reject", why |-> "v"]
      ELSE IF ~InScalarRange(r) \/ ~InScalarRange(s) THEN [c |-> "reject", why |-> "scalar_range"]
      ELSE [c |-> IF upper \/ hasWs THEN "either" ELSE "accept",
            sig |-> [r |-> r, s |-> s, par |-> v - 27], why |-> ""]
=============================================================================
