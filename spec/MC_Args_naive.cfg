SPECIFICATION Spec
INVARIANT SlipsAlwaysRefused
CHECK_DEADLOCK FALSE
