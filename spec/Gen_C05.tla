------------------------------ MODULE Gen_C05 ------------------------------
(* Workload for C05: signing, boundary keys x boundary digests and PRNG pairs. *)
EXTENDS GenKeys
O1 == 0 + (NSignFixed+NSignRand)
Count == O1
ItemAt(g) ==
   SignAt(g - 0)
VARIABLE n
INSTANCE GenBase
=============================================================================
