------------------------------ MODULE Gen_C05 ------------------------------
(* Workload for C05: signing, boundary keys x boundary digests and PRNG pairs. *)
EXTENDS GenKeys
O1 == 0 + (NSignFixed+NSignRand)
Count == O1 + NBulk
ItemAt(g) ==
  IF g <= O1 THEN SignAt(g - 0) ELSE BulkAt(g - O1)
Histories == IF "VERIF_TIER" \in DOMAIN IOEnv /\ IOEnv.VERIF_TIER = "thorough" THEN 300 ELSE 40
VARIABLE n
INSTANCE GenBase
=============================================================================
