------------------------------ MODULE Gen_C05 ------------------------------
(* Workload for C05: signing, boundary keys x boundary digests and PRNG pairs. *)
EXTENDS GenKeys
O1 == 0 + (NSignFixed+NSignRand)
Count == O1 + NBulk + NTwinHist
ItemAt(g) ==
  IF g <= O1 THEN SignAt(g - 0) ELSE IF g <= O1 + NBulk THEN BulkAt(g - O1) ELSE TwinKeyAt(2 * (g - O1 - NBulk) - 1)
Histories == IF "VERIF_TIER" \in DOMAIN IOEnv /\ IOEnv.VERIF_TIER = "thorough" THEN 300 ELSE 40
VARIABLE n
INSTANCE GenBase
=============================================================================
