SPECIFICATION Spec
CONSTANT Variant = "primary_included"
INVARIANT ClosureCorrect
INVARIANT PrimaryNeverRepeated
INVARIANT Bounded
PROPERTY Terminates
CHECK_DEADLOCK FALSE
