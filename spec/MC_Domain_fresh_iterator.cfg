SPECIFICATION Spec
CONSTANT Variant = "fresh_iterator"
INVARIANT ScanEqualsRule
CHECK_DEADLOCK FALSE
