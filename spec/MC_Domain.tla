----------------------------- MODULE MC_Domain -----------------------------
(***************************************************************************)
(* The ordered scan that verify_domain_type is designed as, against the    *)
(* declarative rule "non-empty subsequence of the five standard members    *)
(* with exactly their types", for ALL member sequences up to length MaxLen *)
(* over the five standard names plus a foreign one, each standard member   *)
(* carrying its correct type (1) or a wrong one (2).                        *)
(*                                                                         *)
(*   allowed := iterator over the standard members                         *)
(*   for each member m: advance `allowed` to the first entry named m.name   *)
(*      (consuming the skipped entries); fail if none or if types differ    *)
(*                                                                         *)
(* Variant "fresh_iterator" (the scan restarts for each member: order and  *)
(* duplicates are lost) and "first_only" (type compared for the first      *)
(* member only) must FAIL.                                                  *)
(***************************************************************************)
EXTENDS Naturals, Sequences, FiniteSets, TLC, IOUtils

CONSTANT Variant
Thorough == "VERIF_TIER" \in DOMAIN IOEnv /\ IOEnv.VERIF_TIER = "thorough"
MaxLen == IF Thorough THEN 6 ELSE 5
Names == 1..6                 \* 1..5 the standard names in standard order, 6 a foreign name
Members == {<<nm, ty>> : nm \in Names, ty \in 1..2}      \* ty = 1: the standard type of that name

VARIABLES ms,       \* the member sequence under test
          i,        \* next member to examine
          pos,      \* the iterator: next standard entry (1..6)
          pc        \* "scan" | "accepted" | "refused"
vars == <<ms, i, pos, pc>>

\* declarative rule
RECURSIVE Embeds(_, _, _)
Embeds(s, k, j) ==
  IF k > Len(s) THEN TRUE
  ELSE IF j > 5 THEN FALSE
  ELSE IF s[k] = <<j, 1>> THEN Embeds(s, k + 1, j + 1)
  ELSE Embeds(s, k, j + 1)
WellFormed(s) == s # <<>> /\ Embeds(s, 1, 1)

Init == ms = <<>> /\ i = 1 /\ pos = 1 /\ pc = "grow"
Grow == /\ pc = "grow" /\ Len(ms) < MaxLen /\ \E m \in Members : ms' = Append(ms, m)
        /\ UNCHANGED <<i, pos, pc>>
Start == /\ pc = "grow" /\ pc' = (IF ms = <<>> THEN "refused" ELSE "scan") /\ UNCHANGED <<ms, i, pos>>
Step ==
  /\ pc = "scan" /\ i <= Len(ms)
  /\ LET from  == IF Variant = "fresh_iterator" THEN 1 ELSE pos
         cands == {j \in from..5 : j = ms[i][1]}
     IN  IF cands = {} THEN pc' = "refused" /\ UNCHANGED <<i, pos>>
         ELSE IF ms[i][2] # 1 /\ ~(Variant = "first_only" /\ i > 1) THEN pc' = "refused" /\ UNCHANGED <<i, pos>>
         ELSE i' = i + 1 /\ pos' = ms[i][1] + 1 /\ UNCHANGED pc
  /\ UNCHANGED ms
Accept == pc = "scan" /\ i > Len(ms) /\ pc' = "accepted" /\ UNCHANGED <<ms, i, pos>>
Next == Grow \/ Start \/ Step \/ Accept
Spec == Init /\ [][Next]_vars

ScanEqualsRule ==
  /\ (pc = "accepted" => WellFormed(ms))
  /\ (pc = "refused" => ~WellFormed(ms))

\* exactly 31 duplicate-free well-formed sequences exist (counted once, at start-up)
AllSeqs(k) == UNION {[1..n -> Members] : n \in 0..k}
ASSUME Cardinality({s \in AllSeqs(5) : WellFormed(s)}) = 31
=============================================================================
