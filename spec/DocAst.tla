------------------------------- MODULE DocAst -------------------------------
(* Constructors for the tagged JSON-document AST carried in workloads and    *)
(* traces (rendered verbatim to text by executor/src/doc.rs), and the        *)
(* deterministic pseudo-random byte source used by the generators.           *)
EXTENDS Bytes, Prim, HdwIO

NStr(s)    == [k |-> "str", v |-> s]
NNum(lit)  == [k |-> "num", v |-> lit]
NBool(b)   == [k |-> "bool", v |-> b]
NNull      == [k |-> "null"]
NArr(es)   == [k |-> "arr", v |-> es]
NObj(kvs)  == [k |-> "obj", v |-> kvs]         \* kvs: << <<key, node>>, ... >>
NHexBytes(b) == NStr("0x" \o BytesToHex(b))     \* byte field / address / slot
\* canonical 0x quantity: no leading zeros, zero is 0x0
NHexQty(bn)  == LET hd == BnToHexDigits(bn) IN NStr("0x" \o Utf8ToStr([i \in 1..Len(hd) |-> HexCodeLower(hd[i])]))
NDecStr(bn)  == NStr(Utf8ToStr(DecCodes(BnToDec(bn))))
NDecNum(bn)  == NNum(Utf8ToStr(DecCodes(BnToDec(bn))))

\* SHA-256 in counter mode: n bytes determined by the key (a byte string)
RECURSIVE PrngGo(_, _, _, _)
PrngGo(key, n, ctr, acc) ==
  IF Len(acc) >= n THEN SubSeq(acc, 1, n)
  ELSE PrngGo(key, n, ctr + 1, acc \o Sha256(key \o <<ctr \div 256, ctr % 256>>))
Prng(key, n) == PrngGo(key, n, 0, <<>>)
\* key from a text tag and small naturals
Key(tag, nums) == StrToUtf8(tag) \o Concat([i \in 1..Len(nums) |-> <<255>> \o BnFromNat(nums[i])])
\* uniform-ish natural below m (m < 2^23) from a key
PrngNat(key, m) == LET b == Prng(key, 3) IN (b[1] * 65536 + b[2] * 256 + b[3]) % m
\* ---- collisions of positional (polynomial) hashes ---------------------------------------------------
\* h(b) = sum b[i] B^(n-i) for a small multiplier B (31: Java's String.hashCode, 33: djb2, 37, 131, 257) is unchanged when
\* two neighbouring bytes move by (+k, -k B).  PolyTwin(b, pos, B, k) is that twin of b, or <<>> if a byte would leave
\* 1..255 (or 0..255 when zero is allowed).  A lookup, cache or comparison keyed by such a hash confuses b with its twins.
PolyBases == <<31, 33, 37, 131, 257>>
PolyTwin(b, pos, B, k, minByte) ==
  IF pos < 1 \/ pos >= Len(b) THEN <<>>
  ELSE LET x == b[pos] + k  y == b[pos + 1] - k * B IN
       IF x < minByte \/ x > 255 \/ y < minByte \/ y > 255 THEN <<>>
       ELSE [i \in 1..Len(b) |-> IF i = pos THEN x ELSE IF i = pos + 1 THEN y ELSE b[i]]
\* all twins of b for the bases and k = +-1, +-2 at every position
PolyTwins(b, minByte) ==
  SelectSeq([q \in 1..(Len(PolyBases) * 4 * (IF Len(b) > 1 THEN Len(b) - 1 ELSE 0)) |->
               LET pos == 1 + ((q - 1) \div (Len(PolyBases) * 4))
                   B   == PolyBases[1 + (((q - 1) \div 4) % Len(PolyBases))]
                   k   == <<1, 0 - 1, 2, 0 - 2>>[1 + ((q - 1) % 4)]
               IN  PolyTwin(b, pos, B, k, minByte)],
            LAMBDA t : t # <<>>)

\* ---- characters to put into a digit position -------------------------------------------------------
\* every character U+0001..U+00FF, and for the significant ASCII characters of the textual grammars (digits, hex
\* letters, x, m, /, ', +, -) the code points that ALIAS them when a code point is truncated to 8 or 16 bits:
\* c + 256 k (k = 1..4), c + 65536, c + 65536 + 256
SignificantAscii == <<48, 49, 50, 51, 52, 53, 54, 55, 56, 57, 97, 98, 99, 100, 101, 102, 65, 66, 67, 68, 69, 70, 120, 88, 109, 47, 39, 43, 45, 32>>
AliasOffsets == <<256, 512, 768, 1024, 65536, 65792>>
\* ... and the typographic / compatibility LOOK-ALIKES of those characters: curly and modifier apostrophes, primes,
\* division and fraction slashes, dashes and minus signs, multiplication sign, full-width forms, the decimal digits of
\* other scripts and of the mathematical alphabets
Confusables ==
  <<8217, 8216, 700, 697, 8242, 65287, 180, 96, 8260, 8725, 65295, 10744, 8208, 8209, 8210, 8211, 8212, 8722, 65293, 65291, 215, 65368, 65336, 65357,
    12288, 160>>
  \o [i \in 1..10 |-> 65295 + i] \o [i \in 1..10 |-> 1631 + i] \o [i \in 1..10 |-> 1775 + i] \o [i \in 1..10 |-> 2405 + i]
  \o [i \in 1..10 |-> 120781 + i] \o [i \in 1..10 |-> 120821 + i] \o [i \in 1..6 |-> 65344 + i] \o [i \in 1..6 |-> 65312 + i]
NAliasChars == Len(SignificantAscii) * Len(AliasOffsets)
NTryChars == 255 + NAliasChars + Len(Confusables)
TryChar(k) ==          \* k in 1..NTryChars
  IF k <= 255 THEN k
  ELSE IF k <= 255 + NAliasChars
    THEN SignificantAscii[1 + ((k - 256) \div Len(AliasOffsets))] + AliasOffsets[1 + ((k - 256) % Len(AliasOffsets))]
  ELSE Confusables[k - 255 - NAliasChars]
=============================================================================
