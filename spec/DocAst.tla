------------------------------- MODULE DocAst -------------------------------
(* Constructors for the tagged JSON-document AST carried in workloads and    *)
(* traces (rendered verbatim to text by executor/src/doc.rs), and the        *)
(* deterministic pseudo-random byte source used by the generators.           *)
EXTENDS Bytes, Prim, HdwIO

NStr(s)    == [k |-> "str", v |-> s]
NNum(lit)  == [k |-> "num", v |-> lit]
NBool(b)   == [k |-> "bool", v |-> b]
NNull      == [k |-> "null"]
NArr(es)   == [k |-> "arr", v |-> es]
NObj(kvs)  == [k |-> "obj", v |-> kvs]         \* kvs: << <<key, node>>, ... >>
NHexBytes(b) == NStr("0x" \o BytesToHex(b))     \* byte field / address / slot
\* canonical 0x quantity: no leading zeros, zero is 0x0
NHexQty(bn)  == LET hd == BnToHexDigits(bn) IN NStr("0x" \o Utf8ToStr([i \in 1..Len(hd) |-> HexCodeLower(hd[i])]))
NDecStr(bn)  == NStr(Utf8ToStr(DecCodes(BnToDec(bn))))
NDecNum(bn)  == NNum(Utf8ToStr(DecCodes(BnToDec(bn))))

\* SHA-256 in counter mode: n bytes determined by the key (a byte string)
RECURSIVE PrngGo(_, _, _, _)
PrngGo(key, n, ctr, acc) ==
  IF Len(acc) >= n THEN SubSeq(acc, 1, n)
  ELSE PrngGo(key, n, ctr + 1, acc \o Sha256(key \o <<ctr \div 256, ctr % 256>>))
Prng(key, n) == PrngGo(key, n, 0, <<>>)
\* key from a text tag and small naturals
Key(tag, nums) == StrToUtf8(tag) \o Concat([i \in 1..Len(nums) |-> <<255>> \o BnFromNat(nums[i])])
\* uniform-ish natural below m (m < 2^23) from a key
PrngNat(key, m) == LET b == Prng(key, 3) IN (b[1] * 65536 + b[2] * 256 + b[3]) % m
=============================================================================
