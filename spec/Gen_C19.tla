------------------------------ MODULE Gen_C19 ------------------------------
(***************************************************************************)
(* Workload for C19: hex encode / decode of byte strings of every length,  *)
(* encode -> decode sessions, decode of re-laid-out text (whitespace       *)
(* anywhere, either case, optional prefix) and of malformed text.          *)
(***************************************************************************)
EXTENDS GenCli
Lens == IF Thorough THEN [i \in 1..4097 |-> i - 1] ELSE [i \in 1..65 |-> i - 1] \o <<255, 256, 1023, 4095, 4096>>
Content(len, r) == [i \in 1..len |-> (i * 7 + r * 13) % 256]
HexCmd(what, chan, bytes) == Cmd("hex", what, NoAcct, <<>>, "", chan, [hex |-> BytesToHex(bytes)])
NEnc == Len(Lens)
\* encode -> decode session for every length
EncAt(j) == SItem("roundtrip", "rt" \o ToString(j), HexCmd("encode", ChanNo(j), Content(Lens[j], j)), <<>>)
DecAt(j, g) ==
  LET ref == [ref |-> g - 1, what |-> "stdout_hex"]
      c   == HexCmd("decode", "stdin", <<>>)
      in0 == CliIn(c)
      in1 == [in0 EXCEPT !.cmd.inp = [hex |-> ref], !.stdin = [hex |-> ref]]
  IN  [i |-> 0, op |-> "cli", fam |-> "roundtrip", sid |-> "rt" \o ToString(j),
       in |-> in1 @@ [rel |-> <<"decodes_to_input_of", g - 1, BytesToHex(Content(Lens[j], j))>>]]
\* layouts of the hex text of random bytes
Ws == <<32, 10, 9, 13, 12, 11>>
NLayouts == IF Thorough THEN 3000 ELSE 150
LayoutAt(j) ==
  LET len   == PrngNat(K("hl", <<j>>), 40)
      bytes == Prng(K("hb", <<j>>), len)
      low   == HexLower(bytes)
      cased == [i \in 1..Len(low) |-> IF IsLowerHexCode(low[i]) /\ PrngNat(K("hc", <<j, i>>), 2) = 1 THEN low[i] - 32 ELSE low[i]]
      pre   == IF j % 3 = 0 THEN <<>> ELSE <<48, 120>>
      text  == pre \o cased
      \* whitespace before every character with probability 1/3, and at the end
      laid  == Concat([i \in 1..Len(text) |->
                 (IF PrngNat(K("hw", <<j, i>>), 3) = 0 THEN <<Ws[1 + PrngNat(K("hx", <<j, i>>), Len(Ws))]>> ELSE <<>>) \o <<text[i]>>])
               \o (IF j % 2 = 0 THEN <<10>> ELSE <<>>)
  IN  CItem("layout", HexCmd("decode", ChanNo(j), laid))
Malformed == <<
  <<48, 120, 97>>, <<97>>, <<48, 120, 97, 98, 99>>,                       \* odd number of digits
  <<103, 48>>, <<48, 120, 48, 103>>, <<48, 120, 97, 98, 122, 48>>,      \* non-hex first / last / middle
  <<48, 120, 97, 98, 48, 120, 99, 100>>,                                  \* 0x in the middle
  <<255, 254>>, <<48, 120, 195>>, <<48, 120, 97, 98, 195, 40>>,          \* not UTF-8
  <<48, 88, 97, 98>>,                                                     \* 0X prefix (open)
  <<48, 120, 97, 11, 98>>,                                                \* vertical tab (open)
  <<48, 120, 97, 194, 160, 98, 48>>, <<48, 120, 97, 227, 128, 128, 98, 49>>, \* NBSP, ideographic space inside an odd count
  <<48, 120>>, <<>>, <<32, 10>>, <<48>>, <<120>>, <<48, 120, 48, 120>>, <<45, 49>>, <<48, 120, 43, 49, 49>>,
  <<48, 120, 97, 98, 0>>, <<48, 120, 239, 188, 145, 239, 188, 146>>       \* NUL, full-width digits
>>
\* Unicode whitespace inside valid text is ignored like any other whitespace
UniWs == << <<194, 160>>, <<227, 128, 128>>, <<226, 128, 131>>, <<194, 133>>, <<226, 128, 168>>, <<11>> >>
UniAt(j) ==
  LET w == UniWs[1 + ((j - 1) % Len(UniWs))]
  IN  CItem("unicode_ws", HexCmd("decode", ChanNo(j),
                                 <<48>> \o (IF j > Len(UniWs) THEN w ELSE <<>>) \o <<120, 97>> \o w \o <<98, 70>> \o w \o <<102>> \o w))
\* LARGE valid text with a multi-byte whitespace character after every byte, under 5 alignments (0..4 leading blanks; the
\* period is 5 bytes, so under one of the alignments the character's bytes straddle any given power-of-two offset up to
\* the size): a reader that works in blocks must not cut a character in two.  150 KB quick, 2.6 MB thorough.
BigWsChars == << <<226, 128, 168>>, <<227, 128, 128>>, <<225, 154, 128>> >>       \* U+2028, U+3000, U+1680
NBigWs == 5 * (IF Thorough THEN 3 ELSE 1)
BigWsAt(j) ==
  LET s    == (j - 1) % 5
      w    == BigWsChars[1 + ((j - 1) \div 5)]
      nb   == IF Thorough THEN 530000 ELSE 30000
      text == Rep(s, 32) \o <<48, 120>> \o Concat([i \in 1..nb |-> <<HexCodeLower((i * 7 + j) % 16), HexCodeLower((i * 3) % 16)>> \o w])
  IN  CItem("big_unicode_ws", HexCmd("decode", ChanNo(j), text))
MalformedAt(j) == CItem("malformed", HexCmd("decode", ChanNo(j), Malformed[j]))
\* large malformed input: the fault lies far behind the beginning (nothing may be written before it is found)
BigBadSizes == <<2047, 2048, 2049, 3000, 5000, 70000>>
NBigBad == Len(BigBadSizes) * 3
BigBadAt(j) ==
  LET size == BigBadSizes[1 + ((j - 1) % Len(BigBadSizes))]
      m    == (j - 1) \div Len(BigBadSizes)
      text == <<48, 120>> \o HexLower([i \in 1..size |-> (i * 5 + 1) % 256])
      bad  == IF m = 0 THEN text \o <<55>>                                        \* a stray trailing digit
              ELSE IF m = 1 THEN [text EXCEPT ![Len(text)] = 103]                 \* the last digit is 'g'
              ELSE [text EXCEPT ![Len(text) - 100] = 122]                         \* a 'z' near the end
  IN  CItem("big_malformed", HexCmd("decode", ChanNo(j), bad))
\* hex encode of content with special prefixes / suffixes on every channel: 0x + two digits per byte, whatever the bytes
NMagicItems == NMagicContents * (IF Thorough THEN 4 ELSE 1)
MagicAt(j) == CItem("magic_content", HexCmd("encode", ChanNo(j + ((j - 1) \div NMagicContents)), MagicContent((j - 1) % NMagicContents)))
\* every byte value 0..255 in the place of a digit: after the prefix, and as the very first byte
NEveryByte == 2 * 256
EveryByteAt(j) ==
  LET b == (j - 1) % 256
  IN  CItem("every_byte", HexCmd("decode", ChanNo(j \div 3), IF j <= 256 THEN <<48, 120, b, 97>> ELSE <<b, 97, 48, 49>>))
\* code points that alias a hexadecimal digit, x or a blank under truncation to 8 / 16 bits, in a digit position, in the
\* place of the x of the prefix, and between two digits
NAlias == 3 * (NTryChars - 255)
AliasAt(j) ==
  LET cp == TryChar(256 + ((j - 1) % (NTryChars - 255)))
      u  == StrToUtf8(CpsToStr(<<cp>>))
      m  == (j - 1) \div (NTryChars - 255)
  IN  CItem("alias_code_points", HexCmd("decode", ChanNo(j), IF m = 0 THEN <<48, 120>> \o u \o <<97>>
                                                             ELSE IF m = 1 THEN <<48>> \o u \o <<97, 98>> ELSE <<48, 120, 97>> \o u \o <<98, 99, 100>>))
\* HUGE malformed text: more than 2^24 / 2^25 hexadecimal digits with the fault at the very end (a stray character, an odd
\* count) - nothing may be written before the fault is found, however far away it is
HugeReps == <<8388613, 16777221>>
HugeTails == <<<<103>>, <<97>>, <<97, 98, 122, 10>>>>
NHuge == (IF Thorough THEN 2 ELSE 1) * Len(HugeTails) * 3
HugeAt(j) ==
  LET tl == HugeTails[1 + ((j - 1) % 3)]
      ch == <<"file", "stdin", "fifo">>[1 + (((j - 1) \div 3) % 3)]
      rp == HugeReps[1 + ((j - 1) \div 9)]
      c  == Cmd("hex", "decode", NoAcct, <<>>, "", ch, [hex |-> "", rl |-> [pre |-> <<48, 120>>, pat |-> <<97, 98>>, rep |-> rp, tail |-> tl]])
  IN  CItem("huge_malformed", c)
O1 == 2 * NEnc
O2 == O1 + NLayouts
O3 == O2 + Len(Malformed)
O4 == O3 + NBigBad
O5 == O4 + 2 * Len(UniWs)
O6 == O5 + NMagicItems
O7 == O6 + NEveryByte
O8 == O7 + NAlias
O9 == O8 + NHuge
Count == O9 + NBigWs
ItemAt(g) ==
  IF g <= O1 THEN (IF g % 2 = 1 THEN EncAt((g + 1) \div 2) ELSE DecAt(g \div 2, g))
  ELSE IF g <= O2 THEN LayoutAt(g - O1)
  ELSE IF g <= O3 THEN MalformedAt(g - O2)
  ELSE IF g <= O4 THEN BigBadAt(g - O3)
  ELSE IF g <= O5 THEN UniAt(g - O4)
  ELSE IF g <= O6 THEN MagicAt(g - O5)
  ELSE IF g <= O7 THEN EveryByteAt(g - O6)
  ELSE IF g <= O8 THEN AliasAt(g - O7)
  ELSE IF g <= O9 THEN HugeAt(g - O8)
  ELSE BigWsAt(g - O9)
Histories == 0
VARIABLE n
INSTANCE GenBase
=============================================================================
