----------------------------- MODULE Gen_C15cli -----------------------------
(***************************************************************************)
(* Workload for C15 (sessions): for each transaction                        *)
(*   T = sign transaction            (prints the signed transaction)        *)
(*   S = sign transaction --signature-only                                  *)
(*   H = hash transaction --signature $S   must be keccak256(T)             *)
(* The data flows between the commands at run time ($S is the real output). *)
(***************************************************************************)
EXTENDS GenCli
NTx == IF Thorough THEN 1500 ELSE 40
\* one (thorough: two) more sessions whose calldata is larger than 4 MiB / 8 MiB: the printed transaction is the whole transaction
NHugeTx == IF Thorough THEN 2 ELSE 1
HugeData == <<4195304, 8389608>>
Count == 3 * (NTx + NHugeTx)
ItemAt(g) ==
  LET t    == (g - 1) \div 3
      step == (g - 1) % 3
      kind == Kinds[1 + (t % 3)]
      base == Default(kind, <<50, t>>)
      f0   == IF kind = "legacy" /\ t % 4 = 3 THEN [base EXCEPT !["chainId"] = Absent] ELSE base
      f    == IF t >= NTx THEN [f0 EXCEPT !["data"] = [k |-> "hexstr", v |-> [rep |-> HugeData[t - NTx + 1], pat |-> "5a"]]] ELSE f0
      \* every fourth session: the document is a JSON-RPC transaction object (eth_getTransactionByHash) that still
      \* carries a STALE signature and the other members such objects have - they are not transaction fields: what is
      \* signed and hashed is made of the specified members and of the signature given on the command line only
      stale == << <<"r", NStr("0x" \o BytesToHex(<<1>> \o Prng(K("str", <<t>>), 31)))>>, <<"s", NStr("0x" \o BytesToHex(<<1>> \o Prng(K("sts", <<t>>), 31)))>>,
                  <<"v", NStr(IF t % 8 = 1 THEN "0x1b" ELSE "0x1")>>, <<"yParity", NStr(IF t % 8 = 1 THEN "0x0" ELSE "0x1")>>,
                  <<"hash", NStr("0x" \o BytesToHex(Prng(K("sth", <<t>>), 32)))>>, <<"from", NStr("0x" \o BytesToHex(Prng(K("stf", <<t>>), 20)))>>,
                  <<"type", NStr("0x2")>>, <<"blockNumber", NNull>> >>
      d0   == MkDoc(f)
      doc  == [doc |-> IF t % 4 = 1 /\ t < NTx THEN NObj(d0.v \o stale) ELSE d0]
      acct == PlainAcct(Mnemonics[1 + (t % 3)])
      flags(only) == (IF only THEN <<"signature_only">> ELSE <<>>) \o <<"allow_missing">>
      sid  == "tx" \o ToString(t)
  IN  IF step = 0 THEN SItem("session", sid, Cmd("sign", "transaction", acct, flags(FALSE), "", "file", doc), <<>>)
      ELSE IF step = 1 THEN SItem("session", sid, Cmd("sign", "transaction", acct, flags(TRUE), "", "stdin", doc), <<>>)
      ELSE
        \* the signature text is a reference to the output of the previous step, resolved by the executor
        LET ref == [ref |-> g - 1, what |-> "stdout_trim"]
            c   == Cmd("hash", "transaction", NoAcct, <<>>, "@SIG@", "file", doc)
            in0 == CliIn(c)
            in1 == [in0 EXCEPT !.cmd.sigtext = ref,
                               !.argv = [k \in DOMAIN in0.argv |-> IF in0.argv[k] = "@SIG@" THEN ref ELSE in0.argv[k]]]
        IN  [i |-> 0, op |-> "cli", fam |-> "session", sid |-> sid, in |-> in1 @@ [rel |-> <<"keccak_of_output", g - 2>>]]
Histories == 0
VARIABLE n
INSTANCE GenBase
=============================================================================
