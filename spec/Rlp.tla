-------------------------------- MODULE Rlp --------------------------------
(***************************************************************************)
(* Recursive Length Prefix encoding: the canonical encoder and a STRICT    *)
(* decoder that rejects every non-canonical form.  Items are tagged:       *)
(*   [t |-> "b", v |-> <<bytes>>]   a byte string                          *)
(*   [t |-> "l", v |-> <<items>>]   a list                                 *)
(* Implementation anchor: src/transaction/rlp.rs (len, bytes, uint, list). *)
(***************************************************************************)
EXTENDS Bytes

RlpB(bytes) == [t |-> "b", v |-> bytes]
RlpL(items) == [t |-> "l", v |-> items]

\* Length header for a payload of n bytes (n a TLC integer) with offset
\* 0x80 (strings) or 0xc0 (lists).
LenHdr(n, off) ==
  IF n < 56 THEN <<off + n>>
  ELSE LET lb == BnFromNat(n) IN <<off + 55 + Len(lb)>> \o lb

\* The same for lengths given as big-endian naturals (beyond 2^31).
LenHdrBn(nb, off) ==
  LET lb == BnNorm(nb)
  IN  IF BnLt(lb, <<56>>) THEN <<off + BnToNat(lb)>>
      ELSE <<off + 55 + Len(lb)>> \o lb

EncBytes(b) == IF Len(b) = 1 /\ b[1] < 128 THEN b ELSE LenHdr(Len(b), 128) \o b
\* integers: minimal big-endian, zero is the empty string
EncUint(bn) == EncBytes(BnNorm(bn))
\* a list whose items are already encoded
EncListRaw(encs) == LET payload == Concat(encs) IN LenHdr(Len(payload), 192) \o payload

RECURSIVE Enc(_)
Enc(item) ==
  IF item.t = "b" THEN EncBytes(item.v)
  ELSE EncListRaw(Mat([i \in 1..Len(item.v) |-> Enc(item.v[i])]))

-----------------------------------------------------------------------------
(* Strict decoding.  Result: [ok |-> TRUE, item, next] (next = position    *)
(* after the item) or [ok |-> FALSE, why].                                  *)

Fail(why)       == [ok |-> FALSE, why |-> why]
Done(item, nxt) == [ok |-> TRUE, item |-> item, next |-> nxt]

\* Strict header at position p: [ok, kind \in {"byte","str","list"}, n (payload
\* length), hlen (header length)].  Rejects a long form whose length field has
\* a leading zero or is below 56, and lengths beyond the model's integers.
Header(bs, p) ==
  IF p > Len(bs) THEN Fail("truncated")
  ELSE LET h == bs[p] IN
    IF h < 128 THEN [ok |-> TRUE, kind |-> "byte", n |-> 1, hlen |-> 0]
    ELSE IF h <= 183 THEN [ok |-> TRUE, kind |-> "str", n |-> h - 128, hlen |-> 1]
    ELSE IF h >= 192 /\ h <= 247 THEN [ok |-> TRUE, kind |-> "list", n |-> h - 192, hlen |-> 1]
    ELSE
      LET ll == IF h <= 191 THEN h - 183 ELSE h - 247 IN
      IF p + ll > Len(bs) THEN Fail("truncated length")
      ELSE LET lb == SubSeq(bs, p + 1, p + ll) IN
        IF lb[1] = 0 THEN Fail("length has leading zero")
        ELSE IF ~BnFitsNat(lb) THEN Fail("length beyond model range")
        ELSE IF BnToNat(lb) < 56 THEN Fail("long form used for short payload")
        ELSE [ok |-> TRUE, kind |-> IF h <= 191 THEN "str" ELSE "list", n |-> BnToNat(lb), hlen |-> 1 + ll]

RECURSIVE DecodeAt(_, _), DecodeItems(_, _, _)
DecodeAt(bs, p) ==
  LET hd == Header(bs, p) IN
  IF ~hd.ok THEN hd
  ELSE IF hd.kind = "byte" THEN Done(RlpB(<<bs[p]>>), p + 1)
  ELSE
    LET first == p + hd.hlen            \* first payload position
        last  == p + hd.hlen + hd.n - 1
    IN  IF last > Len(bs) THEN Fail("truncated payload")
        ELSE IF hd.kind = "str" THEN
          (IF hd.n = 1 /\ bs[first] < 128 THEN Fail("single byte below 0x80 wrapped in a string header")
           ELSE Done(RlpB(SubSeq(bs, first, last)), last + 1))
        ELSE LET its == DecodeItems(bs, first, last)
             IN  IF its.ok THEN Done(RlpL(its.v), last + 1) ELSE its

\* items filling positions p..end exactly
DecodeItems(bs, p, end) ==
  IF p = end + 1 THEN [ok |-> TRUE, v |-> <<>>]
  ELSE LET d == DecodeAt(bs, p) IN
    IF ~d.ok THEN d
    ELSE IF d.next > end + 1 THEN Fail("item overruns its list")
    ELSE LET rest == DecodeItems(bs, d.next, end)
         IN  IF rest.ok THEN [ok |-> TRUE, v |-> <<d.item>> \o rest.v] ELSE rest

StrictDecode(bs) ==
  LET d == DecodeAt(bs, 1)
  IN  IF d.ok /\ d.next # Len(bs) + 1 THEN Fail("trailing bytes") ELSE d

\* an item that is a canonical unsigned integer of at most 32 bytes
IsCanonicalUint(item) ==
  /\ item.t = "b"
  /\ Len(item.v) <= 32
  /\ (Len(item.v) = 0 \/ item.v[1] # 0)
=============================================================================
