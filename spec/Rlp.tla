-------------------------------- MODULE Rlp --------------------------------
(***************************************************************************)
(* Recursive Length Prefix encoding: the canonical encoder and a STRICT    *)
(* decoder that rejects every non-canonical form.  Items are tagged:       *)
(*   [t |-> "b", v |-> <<bytes>>]   a byte string                          *)
(*   [t |-> "l", v |-> <<items>>]   a list                                 *)
(* Implementation anchor: src/transaction/rlp.rs (len, bytes, uint, list). *)
(***************************************************************************)
EXTENDS Bytes

B(bytes) == [t |-> "b", v |-> bytes]
L(items) == [t |-> "l", v |-> items]

\* Length header for a payload of n bytes (n a TLC integer) with offset
\* 0x80 (strings) or 0xc0 (lists).
LenHdr(n, off) ==
  IF n < 56 THEN <<off + n>>
  ELSE LET lb == BnFromNat(n) IN <<off + 55 + Len(lb)>> \o lb

\* The same for lengths given as big-endian naturals (beyond 2^31).
LenHdrBn(nb, off) ==
  LET lb == BnNorm(nb)
  IN  IF BnLt(lb, <<56>>) THEN <<off + BnToNat(lb)>>
      ELSE <<off + 55 + Len(lb)>> \o lb

EncBytes(b) == IF Len(b) = 1 /\ b[1] < 128 THEN b ELSE LenHdr(Len(b), 128) \o b
\* integers: minimal big-endian, zero is the empty string
EncUint(bn) == EncBytes(BnNorm(bn))
\* a list whose items are already encoded
EncListRaw(encs) == LET payload == Concat(encs) IN LenHdr(Len(payload), 192) \o payload

RECURSIVE Enc(_)
Enc(item) ==
  IF item.t = "b" THEN EncBytes(item.v)
  ELSE EncListRaw([i \in 1..Len(item.v) |-> Enc(item.v[i])])

-----------------------------------------------------------------------------
(* Strict decoding.  Result: [ok |-> TRUE, item, next] (next = position    *)
(* after the item) or [ok |-> FALSE, why].                                  *)

Fail(why)       == [ok |-> FALSE, why |-> why]
Done(item, nxt) == [ok |-> TRUE, item |-> item, next |-> nxt]

\* length-of-length field lb (ll bytes at p+1..p+ll): minimal, >= 56, small enough for the model
LongLen(bs, p, ll) ==
  IF p + ll > Len(bs) THEN Fail("truncated length")
  ELSE LET lb == SubSeq(bs, p + 1, p + ll)
       IN  IF lb[1] = 0 THEN Fail("length has leading zero")
           ELSE IF ~BnFitsNat(lb) THEN Fail("length beyond model range")
           ELSE IF BnToNat(lb) < 56 THEN Fail("long form used for short payload")
           ELSE [ok |-> TRUE, n |-> BnToNat(lb)]

RECURSIVE DecodeAt(_, _), DecodeItems(_, _, _)
DecodeAt(bs, p) ==
  IF p > Len(bs) THEN Fail("truncated")
  ELSE LET h == bs[p] IN
    IF h < 128 THEN Done(B(<<h>>), p + 1)
    ELSE IF h <= 183 THEN
      LET n == h - 128 IN
      IF p + n > Len(bs) THEN Fail("truncated string")
      ELSE IF n = 1 /\ bs[p + 1] < 128 THEN Fail("single byte below 0x80 wrapped in a string header")
      ELSE Done(B(SubSeq(bs, p + 1, p + n)), p + n + 1)
    ELSE IF h <= 191 THEN
      LET ll == h - 183
          ln == LongLen(bs, p, ll)
      IN  IF ~ln.ok THEN ln
          ELSE IF p + ll + ln.n > Len(bs) THEN Fail("truncated string")
          ELSE Done(B(SubSeq(bs, p + ll + 1, p + ll + ln.n)), p + ll + ln.n + 1)
    ELSE IF h <= 247 THEN
      LET n == h - 192 IN
      IF p + n > Len(bs) THEN Fail("truncated list")
      ELSE LET its == DecodeItems(bs, p + 1, p + n)
           IN  IF its.ok THEN Done(L(its.v), p + n + 1) ELSE its
    ELSE
      LET ll == h - 247
          ln == LongLen(bs, p, ll)
      IN  IF ~ln.ok THEN ln
          ELSE IF p + ll + ln.n > Len(bs) THEN Fail("truncated list")
          ELSE LET its == DecodeItems(bs, p + ll + 1, p + ll + ln.n)
               IN  IF its.ok THEN Done(L(its.v), p + ll + ln.n + 1) ELSE its

\* items filling positions p..end exactly
DecodeItems(bs, p, end) ==
  IF p = end + 1 THEN [ok |-> TRUE, v |-> <<>>]
  ELSE LET d == DecodeAt(bs, p) IN
    IF ~d.ok THEN d
    ELSE IF d.next > end + 1 THEN Fail("item overruns its list")
    ELSE LET rest == DecodeItems(bs, d.next, end)
         IN  IF rest.ok THEN [ok |-> TRUE, v |-> <<d.item>> \o rest.v] ELSE rest

StrictDecode(bs) ==
  LET d == DecodeAt(bs, 1)
  IN  IF d.ok /\ d.next # Len(bs) + 1 THEN Fail("trailing bytes") ELSE d

\* an item that is a canonical unsigned integer of at most 32 bytes
IsCanonicalUint(item) ==
  /\ item.t = "b"
  /\ Len(item.v) <= 32
  /\ (Len(item.v) = 0 \/ item.v[1] # 0)
=============================================================================
