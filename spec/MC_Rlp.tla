------------------------------- MODULE MC_Rlp -------------------------------
(***************************************************************************)
(* Model-level theorems about Rlp.tla, checked exhaustively by TLC over a  *)
(* structurally complete bounded universe (independent of the repository): *)
(*  (1) StrictDecode(Enc(x)) = x and consumes the whole encoding           *)
(*  (2) every non-canonical variant of every encoding is REJECTED          *)
(*      (anti-vacuity for the strict decoder)                              *)
(*  (3) the length header is minimal and its strict parse is its inverse,  *)
(*      for every length 0..70000 and windows around 2^16 and 2^24         *)
(*  (4) integers of every byte width 1..32 (minimum and maximum) encode    *)
(*      canonically; zero is the empty string                              *)
(*  (5) Enc is injective on the universe (follows from (1), re-checked on  *)
(*      encodings grouped by value)                                        *)
(***************************************************************************)
EXTENDS Rlp, FiniteSets, TLC, IOUtils

Thorough == "VERIF_TIER" \in DOMAIN IOEnv /\ IOEnv.VERIF_TIER = "thorough"

Alpha == {0, 127, 128, 255}
Strs(n) == [1..n -> Alpha]
SmallStrings == {<<>>} \cup UNION {Strs(n) : n \in 1..3}
SingleBytes  == {<<b>> : b \in 0..255}
FillStrings  == {Rep(n, 7 + (n % 200)) : n \in (0..60) \cup {254, 255, 256, 257, 1023, 1024, 65535, 65536}}
ByteItems == {RlpB(s) : s \in SmallStrings \cup SingleBytes \cup FillStrings}

Atoms == {RlpB(<<>>), RlpB(<<0>>), RlpB(<<127>>), RlpB(<<128>>), RlpB(<<1, 2>>), RlpB(Rep(55, 9)), RlpB(Rep(56, 9))}
ListsOver(S, k) == {RlpL(<<>>)} \cup UNION {{RlpL(t) : t \in [1..m -> S]} : m \in 1..k}
Depth1 == ListsOver(Atoms, 3)
Mid    == {RlpL(<<>>), RlpL(<<RlpB(<<>>)>>), RlpL(<<RlpB(<<128>>), RlpB(Rep(55, 9))>>), RlpL(<<RlpB(Rep(56, 9))>>),
           RlpL(<<RlpB(<<1>>), RlpB(<<2>>), RlpB(<<3>>)>>)}
Depth2 == ListsOver(Atoms \cup Mid, 2)
Depth3 == ListsOver({RlpL(<<RlpL(<<>>)>>), RlpL(<<RlpL(<<RlpB(<<0>>)>>), RlpB(<<255>>)>>), RlpB(<<5>>)} \cup Mid, 2)
\* lists whose payload straddles 55/56 and 255/256
Straddle == {RlpL([i \in 1..m |-> RlpB(<<i % 128>>)]) : m \in {54, 55, 56, 57, 255, 256}}
Universe == ByteItems \cup Depth1 \cup Depth2 \cup Depth3 \cup Straddle

\* non-canonical / damaged variants of an encoding e of item x
Variants(x, e) ==
  LET n == IF x.t = "b" THEN Len(x.v) ELSE Len(e) - 1          \* payload length when short form
      off == IF x.t = "b" THEN 128 ELSE 192
      short == e[1] >= off /\ e[1] <= off + 55 /\ ~(x.t = "b" /\ Len(x.v) = 1 /\ x.v[1] < 128)
      payload == IF short THEN Tail(e) ELSE <<>>
  IN  {e \o <<0>>, SubSeq(e, 1, Len(e) - 1)}                                   \* trailing byte, truncation
      \cup (IF x.t = "b" /\ Len(x.v) = 1 /\ x.v[1] < 128 THEN {<<129>> \o x.v} ELSE {})
      \cup (IF short THEN {<<off + 56, Len(payload)>> \o payload,               \* long form for a short payload
                           <<off + 57, 0, Len(payload)>> \o payload}            \* ... with a leading zero
            ELSE {})
      \cup (IF e[1] = off + 56 THEN {<<off + 57, 0>> \o Tail(e)} ELSE {})       \* leading zero in a real long length
      \cup (IF e[1] = off + 57 THEN {<<off + 58, 0>> \o Tail(e)} ELSE {})

VARIABLES x, v        \* v = <<>>: the canonical encoding is examined; otherwise v is a variant
Init == x \in Universe /\ v = <<>>
Next == v = <<>> /\ v' \in Variants(x, Enc(x)) /\ UNCHANGED x
Spec == Init /\ [][Next]_<<x, v>>

RoundTrip ==
  v = <<>> => LET e == Enc(x) d == StrictDecode(e)
              IN d.ok /\ d.item = x /\ d.next = Len(e) + 1
VariantsRejected ==
  v # <<>> => LET d == StrictDecode(v) IN ~d.ok \/ d.item # x

\* (3) and (4) are constant-level: evaluated once at start-up
Lens == (IF Thorough THEN 0..70000 ELSE (0..2100) \cup (65530..65540)) \cup (16777210..16777222)
ASSUME \A n \in Lens : \A off \in {128, 192} :
  LET h  == LenHdr(n, off)
      hd == Header(h \o <<200>>, 1)      \* one following byte so that short forms have a payload position
  IN  /\ h = LenHdrBn(BnFromNat(n), off)
      /\ hd.ok /\ hd.n = n /\ hd.hlen = Len(h)
      /\ (n >= 56 => h[2] # 0 /\ Len(h) = 1 + Len(BnFromNat(n)))
      /\ (n < 56 => Len(h) = 1)
ASSUME LenHdr(55, 128) = <<183>> /\ LenHdr(56, 128) = <<184, 56>> /\ LenHdr(1024, 128) = <<185, 4, 0>>
ASSUME LenHdr(65536, 192) = <<250, 1, 0, 0>> /\ LenHdr(16777216, 128) = <<187, 1, 0, 0, 0>>
ASSUME LenHdrBn(<<1, 0, 0, 0, 0>>, 128) = <<188, 1, 0, 0, 0, 0>>
ASSUME EncUint(<<>>) = <<128>> /\ EncUint(<<0, 0>>) = <<128>> /\ EncUint(<<0, 127>>) = <<127>> /\ EncUint(<<128>>) = <<129, 128>>
ASSUME \A w \in 1..32 :
  LET lo == <<1>> \o Zeros(w - 1)
      hi == Rep(w, 255)
  IN  \A u \in {lo, hi, Zeros(32 - w) \o hi} :
        LET d == StrictDecode(EncUint(u))
        IN  d.ok /\ IsCanonicalUint(d.item) /\ d.item.v = BnNorm(u)
\* (5) injectivity on the universe
ASSUME Cardinality({Enc(y) : y \in Universe}) = Cardinality(Universe)
ASSUME PrintT(<<"MC_Rlp universe", Cardinality(Universe)>>)
=============================================================================
