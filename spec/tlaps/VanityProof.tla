---------------------------- MODULE VanityProof ----------------------------
(***************************************************************************)
(* TLAPS proof, for EVERY number of workers N and EVERY candidate space K, *)
(* that the vanity search machine (the actions of MC_Vanity.tla /          *)
(* apalache/VanityInd.tla, without any bound on the number of entropy      *)
(* requests) prints only a phrase that matches the prefix and was granted  *)
(* by the entropy source:                                                  *)
(*                                                                         *)
(*     THEOREM Spec => []PrintedIsGrantedMatch                             *)
(*     THEOREM Spec => []NothingPrintedUnlessPrinted                       *)
(*                                                                         *)
(* TLC explores the same machine exhaustively for N <= 3 (4) with bounded  *)
(* requests (and checks the judge's soundness and liveness there);         *)
(* Apalache discharges an inductive invariant for N = 3 / 6 with unbounded *)
(* requests; this proof removes the bound on N and K as well.              *)
(***************************************************************************)
EXTENDS Integers, Sequences, TLAPS

CONSTANTS N, K
ASSUME NAssump == N \in Nat /\ K \in Nat

VARIABLES matching, main, wst, cand, chan, out, granted
vars == <<matching, main, wst, cand, chan, out, granted>>

Workers == 1..N
Threads == 0..N
WStates == {"idle", "run", "req", "matched", "refused", "sent"}
MStates == {"init", "wait", "inline_run", "inline_req", "printed", "failed"}
Msg == [ok : BOOLEAN, p : Int]

Init ==
  /\ matching \in SUBSET (1..K)
  /\ main = "init" /\ wst = [w \in Workers |-> "idle"] /\ cand = [t \in Threads |-> 0]
  /\ chan = <<>> /\ out = 0 /\ granted = {}

MainGrant(p) ==
  /\ main = "init"
  /\ cand' = [t \in Threads |-> p] /\ main' = (IF N = 0 THEN "inline_run" ELSE "wait") /\ wst' = [w \in Workers |-> "run"]
  /\ granted' = granted \union {p}
  /\ UNCHANGED <<matching, chan, out>>
MainRefuse == main = "init" /\ main' = "failed" /\ UNCHANGED <<matching, wst, cand, chan, out, granted>>
\* N = 0: the worker loop runs inline on the main thread (thread 0)
InlineCheck ==
  /\ main = "inline_run"
  /\ IF cand[0] \in matching THEN main' = "printed" /\ out' = cand[0] ELSE main' = "inline_req" /\ UNCHANGED out
  /\ UNCHANGED <<matching, wst, cand, chan, granted>>
InlineGrant(p) ==
  /\ main = "inline_req"
  /\ cand' = [cand EXCEPT ![0] = p] /\ main' = "inline_run" /\ granted' = granted \union {p}
  /\ UNCHANGED <<matching, wst, chan, out>>
InlineRefuse == main = "inline_req" /\ main' = "failed" /\ UNCHANGED <<matching, wst, cand, chan, out, granted>>
Alive == main = "wait"
WorkerCheck(w) ==
  /\ Alive /\ wst[w] = "run"
  /\ wst' = [wst EXCEPT ![w] = IF cand[w] \in matching THEN "matched" ELSE "req"]
  /\ UNCHANGED <<matching, main, cand, chan, out, granted>>
WorkerSendOk(w) ==
  /\ Alive /\ wst[w] = "matched"
  /\ chan' = Append(chan, [ok |-> TRUE, p |-> cand[w]]) /\ wst' = [wst EXCEPT ![w] = "sent"]
  /\ UNCHANGED <<matching, main, cand, out, granted>>
EnvGrant(w, p) ==
  /\ Alive /\ wst[w] = "req"
  /\ cand' = [cand EXCEPT ![w] = p] /\ wst' = [wst EXCEPT ![w] = "run"] /\ granted' = granted \union {p}
  /\ UNCHANGED <<matching, main, chan, out>>
EnvRefuse(w) ==
  /\ Alive /\ wst[w] = "req" /\ wst' = [wst EXCEPT ![w] = "refused"]
  /\ UNCHANGED <<matching, main, cand, chan, out, granted>>
WorkerSendErr(w) ==
  /\ Alive /\ wst[w] = "refused"
  /\ chan' = Append(chan, [ok |-> FALSE, p |-> 0]) /\ wst' = [wst EXCEPT ![w] = "sent"]
  /\ UNCHANGED <<matching, main, cand, out, granted>>
MainRecv ==
  /\ main = "wait" /\ Len(chan) > 0
  /\ IF Head(chan).ok THEN main' = "printed" /\ out' = Head(chan).p ELSE main' = "failed" /\ UNCHANGED out
  /\ UNCHANGED <<matching, wst, cand, chan, granted>>

Next ==
  \/ \E p \in 1..K : MainGrant(p)
  \/ MainRefuse
  \/ \E w \in Workers : WorkerCheck(w) \/ WorkerSendOk(w) \/ EnvRefuse(w) \/ WorkerSendErr(w)
  \/ \E w \in Workers : \E p \in 1..K : EnvGrant(w, p)
  \/ MainRecv
  \/ InlineCheck \/ InlineRefuse \/ \E p \in 1..K : InlineGrant(p)
Spec == Init /\ [][Next]_vars

PrintedIsGrantedMatch == main = "printed" => out \in matching /\ out \in granted

TypeOK ==
  /\ main \in MStates
  /\ wst \in [Workers -> WStates]
  /\ cand \in [Threads -> Int]
  /\ chan \in Seq(Msg)

Inv ==
  /\ TypeOK
  /\ (main = "init" => \A w \in Workers : wst[w] = "idle")
  \* every candidate a started worker holds was granted
  /\ \A w \in Workers : wst[w] # "idle" => cand[w] \in granted
  /\ \A w \in Workers : wst[w] = "matched" => cand[w] \in matching
  \* every Ok message carries a granted, matching phrase
  /\ \A i \in 1..Len(chan) : chan[i].ok => (chan[i].p \in matching /\ chan[i].p \in granted)
  \* the inline candidate was granted
  /\ (main \in {"inline_run", "inline_req"} => cand[0] \in granted)
  \* nothing is printed before the exit through "printed"
  /\ (main # "printed" => out = 0)
  /\ PrintedIsGrantedMatch

\* a failed run prints nothing
NothingPrintedUnlessPrinted == main # "printed" => out = 0

LEMMA WorkersInThreads == Workers \subseteq Threads
  BY NAssump DEF Workers, Threads

THEOREM InitInv == Init => Inv
  <1> SUFFICES ASSUME Init PROVE Inv OBVIOUS
  <1>1. TypeOK
    BY DEF Init, TypeOK, MStates, WStates, Msg
  <1>2. chan = <<>> /\ Len(chan) = 0
    BY DEF Init
  <1> QED BY <1>1, <1>2 DEF Init, Inv, PrintedIsGrantedMatch

THEOREM NextInv == Inv /\ [Next]_vars => Inv'
  <1> SUFFICES ASSUME Inv, [Next]_vars PROVE Inv' OBVIOUS
  <1> USE NAssump, WorkersInThreads
  <1>1. ASSUME NEW p \in 1..K, MainGrant(p) PROVE Inv'
    <2>1. TypeOK'
      BY <1>1 DEF Inv, TypeOK, MainGrant, MStates, WStates, Msg
    <2> QED BY <1>1, <2>1 DEF Inv, TypeOK, MainGrant, PrintedIsGrantedMatch, Workers, Threads
  <1>2. ASSUME MainRefuse PROVE Inv'
    BY <1>2 DEF Inv, TypeOK, MainRefuse, PrintedIsGrantedMatch, MStates
  <1>3. ASSUME NEW w \in Workers, WorkerCheck(w) PROVE Inv'
    BY <1>3 DEF Inv, TypeOK, WorkerCheck, Alive, PrintedIsGrantedMatch, WStates
  <1>4. ASSUME NEW w \in Workers, WorkerSendOk(w) PROVE Inv'
    <2> DEFINE m == [ok |-> TRUE, p |-> cand[w]]
    <2>1. m \in Msg
      BY <1>4 DEF Inv, TypeOK, Msg, Workers, Threads
    <2>2. chan' \in Seq(Msg) /\ Len(chan') = Len(chan) + 1
          /\ (\A i \in 1..Len(chan) : chan'[i] = chan[i]) /\ chan'[Len(chan) + 1] = m
      BY <1>4, <2>1 DEF Inv, TypeOK, WorkerSendOk
    <2>3. cand[w] \in matching /\ cand[w] \in granted
      BY <1>4 DEF Inv, WorkerSendOk
    <2>4. \A i \in 1..Len(chan') : chan'[i].ok => (chan'[i].p \in matching' /\ chan'[i].p \in granted')
      BY <1>4, <2>2, <2>3 DEF Inv, TypeOK, WorkerSendOk
    <2>5. TypeOK'
      BY <1>4, <2>2 DEF Inv, TypeOK, WorkerSendOk, WStates
    <2> QED BY <1>4, <2>4, <2>5 DEF Inv, TypeOK, WorkerSendOk, Alive, PrintedIsGrantedMatch
  <1>5. ASSUME NEW w \in Workers, EnvRefuse(w) PROVE Inv'
    BY <1>5 DEF Inv, TypeOK, EnvRefuse, Alive, PrintedIsGrantedMatch, WStates
  <1>6. ASSUME NEW w \in Workers, WorkerSendErr(w) PROVE Inv'
    <2> DEFINE m == [ok |-> FALSE, p |-> 0]
    <2>1. m \in Msg
      BY DEF Msg
    <2>2. chan' \in Seq(Msg) /\ Len(chan') = Len(chan) + 1
          /\ (\A i \in 1..Len(chan) : chan'[i] = chan[i]) /\ chan'[Len(chan) + 1] = m
      BY <1>6, <2>1 DEF Inv, TypeOK, WorkerSendErr
    <2>4. \A i \in 1..Len(chan') : chan'[i].ok => (chan'[i].p \in matching' /\ chan'[i].p \in granted')
      BY <1>6, <2>2 DEF Inv, TypeOK, WorkerSendErr
    <2>5. TypeOK'
      BY <1>6, <2>2 DEF Inv, TypeOK, WorkerSendErr, WStates
    <2> QED BY <1>6, <2>4, <2>5 DEF Inv, TypeOK, WorkerSendErr, Alive, PrintedIsGrantedMatch
  <1>7. ASSUME NEW w \in Workers, NEW p \in 1..K, EnvGrant(w, p) PROVE Inv'
    <2>1. TypeOK'
      BY <1>7 DEF Inv, TypeOK, EnvGrant, WStates, Workers, Threads
    <2> QED BY <1>7, <2>1 DEF Inv, TypeOK, EnvGrant, Alive, PrintedIsGrantedMatch, Workers, Threads
  <1>8. ASSUME MainRecv PROVE Inv'
    <2>1. Len(chan) > 0 /\ Head(chan) = chan[1] /\ 1 \in 1..Len(chan)
      BY <1>8 DEF Inv, TypeOK, MainRecv
    <2>2. Head(chan).ok => (Head(chan).p \in matching /\ Head(chan).p \in granted)
      BY <2>1 DEF Inv
    <2> QED BY <1>8, <2>1, <2>2 DEF Inv, TypeOK, MainRecv, PrintedIsGrantedMatch, MStates
  <1>10. ASSUME InlineCheck PROVE Inv'
    BY <1>10 DEF Inv, TypeOK, InlineCheck, PrintedIsGrantedMatch, MStates
  <1>11. ASSUME InlineRefuse PROVE Inv'
    BY <1>11 DEF Inv, TypeOK, InlineRefuse, PrintedIsGrantedMatch, MStates
  <1>12. ASSUME NEW p \in 1..K, InlineGrant(p) PROVE Inv'
    <2>1. 0 \in Threads
      BY DEF Threads
    <2>2. TypeOK'
      BY <1>12, <2>1 DEF Inv, TypeOK, InlineGrant, MStates
    <2> QED BY <1>12, <2>1, <2>2 DEF Inv, TypeOK, InlineGrant, PrintedIsGrantedMatch, Workers, Threads
  <1>9. ASSUME UNCHANGED vars PROVE Inv'
    BY <1>9 DEF Inv, TypeOK, vars, PrintedIsGrantedMatch
  <1> QED BY <1>1, <1>2, <1>3, <1>4, <1>5, <1>6, <1>7, <1>8, <1>9, <1>10, <1>11, <1>12 DEF Next

THEOREM Safety == Spec => []PrintedIsGrantedMatch
  <1>1. Inv => PrintedIsGrantedMatch
    BY DEF Inv
  <1> QED BY InitInv, NextInv, <1>1, PTL DEF Spec

THEOREM Silent == Spec => []NothingPrintedUnlessPrinted
  <1>1. Inv => NothingPrintedUnlessPrinted
    BY DEF Inv, NothingPrintedUnlessPrinted
  <1> QED BY InitInv, NextInv, <1>1, PTL DEF Spec
=============================================================================
