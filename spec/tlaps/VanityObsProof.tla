--------------------------- MODULE VanityObsProof ---------------------------
(***************************************************************************)
(* TLAPS proof, for EVERY number of workers N >= 1 and every candidate     *)
(* space K, with no bound on the number of entropy requests, that the      *)
(* judge's observer admits whatever the vanity search machine does:        *)
(*                                                                         *)
(*     THEOREM Spec => []JudgeSound                                        *)
(*                                                                         *)
(* The machine and the observer are those of apalache/VanityObsInd.tla     *)
(* (threaded mode; the observer operators are VanityObsOps.tla, which      *)
(* MC_Vanity checks against Vanity.tla); Apalache discharges the same      *)
(* invariant automatically for N = 3 / 4, TLC explores N <= 3 (4) with     *)
(* bounded requests.  Real runs use up to 16 (64) worker threads.          *)
(***************************************************************************)
EXTENDS Integers, Sequences, FiniteSets, FiniteSetTheorems, TLAPS, VanityObsOps

CONSTANTS N, K
ASSUME NKAssump == N \in Nat /\ N >= 1 /\ K \in Nat

VARIABLES matching, main, wst, cand, chan, out, oMain, oSeen, oCand, oSt, guardOk
vars == <<matching, main, wst, cand, chan, out, oMain, oSeen, oCand, oSt, guardOk>>

Workers == 1..N
Threads == 0..N
WStates == {"idle", "run", "req", "matched", "refused", "sentok", "senterr"}
MStates == {"init", "wait", "printed", "failed"}
OStates == {"none", "spawned", "run", "refused"}
Msg == [ok : BOOLEAN, p : Int, w : Workers]

M0 == oCand[0]
CandOf(t) == OCandOf(oSeen, oCand, t)
MayRequest(t) == OMayRequest(matching, N, oMain, oSeen, oCand, oSt, t)
MayPrint(p) == OMayPrint(matching, N, oMain, oSeen, oCand, oSt, p)
MayFail == OMayFail(oMain, oSeen, oSt)
MustHaveExited == OMustHaveExited(matching, N, oMain, oSeen, oCand, oSt)

Init ==
  /\ matching \in SUBSET (1..K)
  /\ main = "init" /\ wst = [w \in Workers |-> "idle"] /\ cand = [t \in Threads |-> 0]
  /\ chan = <<>> /\ out = 0
  /\ oMain = "init" /\ oSeen = {} /\ oCand = [t \in Threads |-> 0] /\ oSt = [t \in Threads |-> "none"] /\ guardOk = TRUE

MainGrant(p) ==
  /\ main = "init"
  /\ cand' = [t \in Threads |-> p] /\ main' = "wait" /\ wst' = [w \in Workers |-> "run"]
  /\ oMain' = "wait" /\ oCand' = [oCand EXCEPT ![0] = p] /\ oSt' = [oSt EXCEPT ![0] = "spawned"]
  /\ UNCHANGED <<matching, chan, out, oSeen, guardOk>>
MainRefuse ==
  /\ main = "init" /\ main' = "failed" /\ oMain' = "failed"
  /\ UNCHANGED <<matching, wst, cand, chan, out, oSeen, oCand, oSt, guardOk>>
Alive == main = "wait"
WorkerCheck(w) ==
  /\ Alive /\ wst[w] = "run"
  /\ wst' = [wst EXCEPT ![w] = IF cand[w] \in matching THEN "matched" ELSE "req"]
  /\ UNCHANGED <<matching, main, cand, chan, out, oMain, oSeen, oCand, oSt, guardOk>>
WorkerSendOk(w) ==
  /\ Alive /\ wst[w] = "matched"
  /\ chan' = Append(chan, [ok |-> TRUE, p |-> cand[w], w |-> w]) /\ wst' = [wst EXCEPT ![w] = "sentok"]
  /\ UNCHANGED <<matching, main, cand, out, oMain, oSeen, oCand, oSt, guardOk>>
EnvGrant(w, p) ==
  /\ Alive /\ wst[w] = "req"
  /\ guardOk' = (guardOk /\ MayRequest(w))
  /\ cand' = [cand EXCEPT ![w] = p] /\ wst' = [wst EXCEPT ![w] = "run"]
  /\ oSeen' = oSeen \union {w} /\ oCand' = OGrantCand(oCand, w, p) /\ oSt' = OGrantSt(oSt, w)
  /\ UNCHANGED <<matching, main, chan, out, oMain>>
EnvRefuse(w) ==
  /\ Alive /\ wst[w] = "req"
  /\ guardOk' = (guardOk /\ MayRequest(w))
  /\ wst' = [wst EXCEPT ![w] = "refused"]
  /\ oSeen' = oSeen \union {w} /\ oCand' = ORefuseCand(oSeen, oCand, w) /\ oSt' = ORefuseSt(oSt, w)
  /\ UNCHANGED <<matching, main, cand, chan, out, oMain>>
WorkerSendErr(w) ==
  /\ Alive /\ wst[w] = "refused"
  /\ chan' = Append(chan, [ok |-> FALSE, p |-> 0, w |-> w]) /\ wst' = [wst EXCEPT ![w] = "senterr"]
  /\ UNCHANGED <<matching, main, cand, out, oMain, oSeen, oCand, oSt, guardOk>>
MainRecv ==
  /\ main = "wait" /\ Len(chan) > 0
  /\ IF Head(chan).ok THEN main' = "printed" /\ out' = Head(chan).p ELSE main' = "failed" /\ UNCHANGED out
  /\ UNCHANGED <<matching, wst, cand, chan, oMain, oSeen, oCand, oSt, guardOk>>

Next ==
  \/ \E p \in 1..K : MainGrant(p)
  \/ MainRefuse
  \/ \E w \in Workers : WorkerCheck(w) \/ WorkerSendOk(w) \/ EnvRefuse(w) \/ WorkerSendErr(w)
  \/ \E w \in Workers : \E p \in 1..K : EnvGrant(w, p)
  \/ MainRecv
Spec == Init /\ [][Next]_vars

JudgeSound ==
  /\ guardOk
  /\ (main = "printed" => MayPrint(out))
  /\ (main = "failed" => MayFail)
  /\ (Len(chan) > 0 => MustHaveExited)

Explains(w, p) ==
  /\ p \in matching /\ cand[w] = p
  /\ (w \in oSeen => oCand[w] = p /\ oSt[w] = "run")
  /\ (w \notin oSeen => p = M0)

\* Explains in the next state, written out (for arguments that are themselves next-state expressions)
ExplainsNext(w, p) ==
  /\ p \in matching' /\ cand'[w] = p
  /\ (w \in oSeen' => oCand'[w] = p /\ oSt'[w] = "run")
  /\ (w \notin oSeen' => p = oCand'[0])

TypeOK ==
  /\ matching \subseteq 1..K
  /\ main \in MStates /\ oMain \in {"init", "wait", "failed"}
  /\ wst \in [Workers -> WStates] /\ cand \in [Threads -> Int] /\ oCand \in [Threads -> Int] /\ oSt \in [Threads -> OStates]
  /\ oSeen \subseteq Workers
  /\ chan \in Seq(Msg)
  /\ guardOk \in BOOLEAN

PreMain ==
  /\ (main = "init" => oMain = "init" /\ (\A w \in Workers : wst[w] = "idle") /\ chan = <<>> /\ oSeen = {})
  /\ (oMain = "init" => main = "init")
  /\ (oMain = "failed" => main = "failed" /\ chan = <<>> /\ oSeen = {} /\ (\A w \in Workers : wst[w] = "idle"))
  /\ (main # "init" /\ oMain = "wait" => \A w \in Workers : wst[w] # "idle")
  /\ (main \in {"wait", "printed"} => oMain = "wait")

Coupling ==
  /\ (oMain = "wait" => cand[0] = M0)
  /\ (oMain = "wait" => \A w \in Workers : IF w \in oSeen THEN oCand[w] = cand[w] ELSE cand[w] = M0)
  /\ \A w \in Workers : (w \in oSeen /\ oSt[w] = "refused") <=> wst[w] \in {"refused", "senterr"}
  /\ \A w \in oSeen : oSt[w] \in {"run", "refused"}
  /\ \A w \in Workers : wst[w] = "req" => cand[w] \notin matching
  /\ \A w \in Workers : wst[w] \in {"matched", "sentok"} => cand[w] \in matching

ChanInv ==
  \A i \in 1..Len(chan) :
     /\ (chan[i].ok => wst[chan[i].w] = "sentok" /\ Explains(chan[i].w, chan[i].p))
     /\ (~chan[i].ok => wst[chan[i].w] = "senterr")

ExitInv ==
  /\ (main = "printed" => \E w \in Workers : wst[w] = "sentok" /\ Explains(w, out))
  /\ (main = "failed" /\ oMain = "wait" => \E w \in Workers : wst[w] = "senterr")

Inv == TypeOK /\ PreMain /\ Coupling /\ ChanInv /\ ExitInv /\ guardOk

-----------------------------------------------------------------------------
LEMMA WorkersFacts == /\ Workers \subseteq Threads /\ 0 \in Threads /\ 0 \notin Workers
                      /\ IsFiniteSet(Workers) /\ Cardinality(Workers) = N
  <1>1. IsFiniteSet(1..N) /\ Cardinality(1..N) = N
    BY NKAssump, FS_Interval
  <1> QED BY <1>1, NKAssump DEF Workers, Threads

LEMMA CardLe == ASSUME NEW S \in SUBSET Workers PROVE IsFiniteSet(S) /\ Cardinality(S) \in Nat /\ Cardinality(S) <= N
  BY WorkersFacts, FS_Subset, FS_CardinalityType

LEMMA CardLt == ASSUME NEW S \in SUBSET Workers, NEW w \in Workers, w \notin S PROVE Cardinality(S) < N
  <1>1. IsFiniteSet(Workers \ {w}) /\ Cardinality(Workers \ {w}) = N - 1
    BY WorkersFacts, FS_RemoveElement
  <1>2. S \in SUBSET (Workers \ {w})
    OBVIOUS
  <1>3. Cardinality(S) <= Cardinality(Workers \ {w}) /\ Cardinality(S) \in Nat
    BY <1>1, <1>2, FS_Subset, FS_CardinalityType
  <1> QED BY <1>1, <1>3, NKAssump

\* an explained phrase is one the observer lets the process print (while it waits)
LEMMA ExplainedMayPrint ==
  ASSUME TypeOK, Coupling, oMain = "wait", NEW w \in Workers, NEW p, Explains(w, p)
  PROVE  MayPrint(p)
  <1>1. CASE w \in oSeen
    BY <1>1 DEF Explains, MayPrint, OMayPrint
  <1>2. CASE w \notin oSeen
    <2>1. Cardinality(oSeen) < N
      BY <1>2, CardLt DEF TypeOK
    <2> QED BY <1>2, <2>1 DEF Explains, MayPrint, OMayPrint, M0
  <1> QED BY <1>1, <1>2

LEMMA InvJudgeSound == Inv => JudgeSound
  <1> SUFFICES ASSUME Inv PROVE JudgeSound OBVIOUS
  <1> USE WorkersFacts
  <1>1. guardOk BY DEF Inv
  <1>2. main = "printed" => MayPrint(out)
    <2> SUFFICES ASSUME main = "printed" PROVE MayPrint(out) OBVIOUS
    <2>1. oMain = "wait" BY DEF Inv, PreMain
    <2>2. PICK w \in Workers : wst[w] = "sentok" /\ Explains(w, out) BY DEF Inv, ExitInv
    <2> QED BY <2>1, <2>2, ExplainedMayPrint DEF Inv
  <1>3. main = "failed" => MayFail
    <2> SUFFICES ASSUME main = "failed" PROVE MayFail OBVIOUS
    <2>1. CASE oMain = "failed" BY <2>1 DEF MayFail, OMayFail
    <2>2. CASE oMain = "wait"
      <3>1. PICK w \in Workers : wst[w] = "senterr" BY <2>2 DEF Inv, ExitInv
      <3>2. w \in oSeen /\ oSt[w] = "refused" BY <3>1 DEF Inv, Coupling
      <3> QED BY <2>2, <3>2 DEF MayFail, OMayFail
    <2>3. oMain # "init" BY DEF Inv, PreMain
    <2> QED BY <2>1, <2>2, <2>3 DEF Inv, TypeOK
  <1>4. Len(chan) > 0 => MustHaveExited
    <2> SUFFICES ASSUME Len(chan) > 0 PROVE MustHaveExited OBVIOUS
    <2>0. chan \in Seq(Msg) /\ 1 \in 1..Len(chan) /\ chan[1] \in Msg BY DEF Inv, TypeOK
    <2>1. main # "init" /\ oMain # "init" /\ oMain # "failed" BY DEF Inv, PreMain
    <2>2. oMain = "wait" BY <2>1 DEF Inv, TypeOK
    <2>3. CASE chan[1].ok
      <3>1. chan[1].w \in Workers /\ Explains(chan[1].w, chan[1].p) BY <2>0, <2>3 DEF Inv, ChanInv, Msg
      <3>2. MayPrint(chan[1].p) BY <2>2, <3>1, ExplainedMayPrint DEF Inv
      <3>3. \E t \in oSeen \union {0} : oCand[t] = chan[1].p
        BY <3>1 DEF Explains, M0
      <3> QED BY <3>2, <3>3 DEF MustHaveExited, OMustHaveExited, MayPrint
    <2>4. CASE ~chan[1].ok
      <3>1. chan[1].w \in Workers /\ wst[chan[1].w] = "senterr" BY <2>0, <2>4 DEF Inv, ChanInv, Msg
      <3>2. chan[1].w \in oSeen /\ oSt[chan[1].w] = "refused" BY <3>1 DEF Inv, Coupling
      <3> QED BY <2>2, <3>2 DEF MustHaveExited, OMustHaveExited, OMayFail
    <2> QED BY <2>3, <2>4
  <1> QED BY <1>1, <1>2, <1>3, <1>4 DEF JudgeSound

THEOREM InitInv == Init => Inv
  <1> SUFFICES ASSUME Init PROVE Inv OBVIOUS
  <1> USE WorkersFacts
  <1>1. TypeOK BY DEF Init, TypeOK, MStates, WStates, OStates, Msg
  <1>2. PreMain BY DEF Init, PreMain
  <1>3. Coupling BY DEF Init, Coupling
  <1>4. ChanInv BY DEF Init, ChanInv
  <1>5. ExitInv BY DEF Init, ExitInv
  <1> QED BY <1>1, <1>2, <1>3, <1>4, <1>5 DEF Init, Inv

\* Append facts used for the two send actions
LEMMA AppendFacts ==
  ASSUME NEW c \in Seq(Msg), NEW m \in Msg
  PROVE  /\ Append(c, m) \in Seq(Msg) /\ Len(Append(c, m)) = Len(c) + 1
         /\ (\A i \in 1..Len(c) : Append(c, m)[i] = c[i]) /\ Append(c, m)[Len(c) + 1] = m
  OBVIOUS

THEOREM NextInv == Inv /\ [Next]_vars => Inv'
  <1> SUFFICES ASSUME Inv, [Next]_vars PROVE Inv' OBVIOUS
  <1> USE NKAssump, WorkersFacts
  <1>a. TypeOK /\ PreMain /\ Coupling /\ ChanInv /\ ExitInv /\ guardOk BY DEF Inv
  \* ---------------------------------------------------------------- MainGrant
  <1>1. ASSUME NEW p \in 1..K, MainGrant(p) PROVE Inv'
    <2>0. main = "init" /\ oMain = "init" /\ chan = <<>> /\ oSeen = {} /\ (\A w \in Workers : wst[w] = "idle")
      BY <1>1, <1>a DEF MainGrant, PreMain
    <2>1. TypeOK' BY <1>1, <1>a DEF MainGrant, TypeOK, MStates, WStates, OStates
    <2>2. PreMain' BY <1>1, <1>a, <2>0 DEF MainGrant, PreMain, TypeOK
    <2>3. Coupling' BY <1>1, <1>a, <2>0 DEF MainGrant, Coupling, TypeOK, M0
    <2>4. ChanInv' BY <1>1, <2>0 DEF MainGrant, ChanInv
    <2>5. ExitInv' BY <1>1 DEF MainGrant, ExitInv
    <2>6. guardOk' BY <1>1, <1>a DEF MainGrant
    <2> QED BY <2>1, <2>2, <2>3, <2>4, <2>5, <2>6 DEF Inv
  \* ---------------------------------------------------------------- MainRefuse
  <1>2. ASSUME MainRefuse PROVE Inv'
    <2>0. main = "init" /\ oMain = "init" /\ chan = <<>> /\ oSeen = {} /\ (\A w \in Workers : wst[w] = "idle")
      BY <1>2, <1>a DEF MainRefuse, PreMain
    <2>1. TypeOK' BY <1>2, <1>a DEF MainRefuse, TypeOK, MStates
    <2>2. PreMain' BY <1>2, <1>a, <2>0 DEF MainRefuse, PreMain
    <2>3. Coupling' BY <1>2, <1>a, <2>0 DEF MainRefuse, Coupling, M0
    <2>4. ChanInv' BY <1>2, <2>0 DEF MainRefuse, ChanInv
    <2>5. ExitInv' BY <1>2 DEF MainRefuse, ExitInv
    <2>6. guardOk' BY <1>2, <1>a DEF MainRefuse
    <2> QED BY <2>1, <2>2, <2>3, <2>4, <2>5, <2>6 DEF Inv
  \* ---------------------------------------------------------------- WorkerCheck
  <1>3. ASSUME NEW w \in Workers, WorkerCheck(w) PROVE Inv'
    <2>0. main = "wait" /\ oMain = "wait" /\ wst[w] = "run"
      BY <1>3, <1>a DEF WorkerCheck, Alive, PreMain
    <2>1. TypeOK' BY <1>3, <1>a DEF WorkerCheck, TypeOK, WStates
    <2>2. PreMain' BY <1>3, <1>a, <2>0 DEF WorkerCheck, PreMain, TypeOK
    <2>3. Coupling' BY <1>3, <1>a, <2>0 DEF WorkerCheck, Coupling, TypeOK, M0
    <2>4. ChanInv'
      <3>1. \A i \in 1..Len(chan) : chan[i].w \in Workers /\ chan[i].w # w
        BY <1>a, <2>0 DEF ChanInv, TypeOK, Msg
      <3> QED BY <1>3, <1>a, <3>1 DEF WorkerCheck, ChanInv, Explains, TypeOK, M0
    <2>5. ExitInv' BY <1>3, <1>a, <2>0 DEF WorkerCheck, ExitInv, Explains, TypeOK, M0
    <2>6. guardOk' BY <1>3, <1>a DEF WorkerCheck
    <2> QED BY <2>1, <2>2, <2>3, <2>4, <2>5, <2>6 DEF Inv
  \* ---------------------------------------------------------------- WorkerSendOk
  <1>4. ASSUME NEW w \in Workers, WorkerSendOk(w) PROVE Inv'
    <2> DEFINE m == [ok |-> TRUE, p |-> cand[w], w |-> w]
    <2>0. main = "wait" /\ oMain = "wait" /\ wst[w] = "matched" /\ cand[w] \in matching
      BY <1>4, <1>a DEF WorkerSendOk, Alive, PreMain, Coupling
    <2>m. m \in Msg BY <1>a DEF TypeOK, Msg
    <2>c. /\ chan' \in Seq(Msg) /\ Len(chan') = Len(chan) + 1
          /\ (\A i \in 1..Len(chan) : chan'[i] = chan[i]) /\ chan'[Len(chan) + 1] = m
      BY <1>4, <1>a, <2>m, AppendFacts DEF WorkerSendOk, TypeOK
    <2>1. TypeOK' BY <1>4, <1>a, <2>c DEF WorkerSendOk, TypeOK, WStates
    <2>2. PreMain' BY <1>4, <1>a, <2>0, <2>c DEF WorkerSendOk, PreMain, TypeOK
    <2>3. Coupling' BY <1>4, <1>a, <2>0 DEF WorkerSendOk, Coupling, TypeOK, M0
    <2>e. Explains(w, cand[w])
      BY <1>a, <2>0 DEF Explains, Coupling, TypeOK, M0
    <2>4. ChanInv'
      <3>1. \A i \in 1..Len(chan) : chan[i].w \in Workers /\ chan[i].w # w
        BY <1>a, <2>0 DEF ChanInv, TypeOK, Msg
      <3>2. \A i \in 1..Len(chan) : /\ (chan'[i].ok => wst'[chan'[i].w] = "sentok" /\ ExplainsNext(chan'[i].w, chan'[i].p))
                                      /\ (~chan'[i].ok => wst'[chan'[i].w] = "senterr")
        BY <1>4, <1>a, <2>c, <3>1 DEF WorkerSendOk, ChanInv, Explains, ExplainsNext, TypeOK, M0
      <3>3. chan'[Len(chan) + 1].ok /\ wst'[chan'[Len(chan) + 1].w] = "sentok" /\ ExplainsNext(chan'[Len(chan) + 1].w, chan'[Len(chan) + 1].p)
        BY <1>4, <1>a, <2>c, <2>e DEF WorkerSendOk, Explains, ExplainsNext, TypeOK, M0
      <3>4. \A i \in 1..Len(chan') : i \in 1..Len(chan) \/ i = Len(chan) + 1
        BY <2>c, <1>a DEF TypeOK
      <3> QED BY <3>2, <3>3, <3>4 DEF ChanInv, Explains, ExplainsNext, M0
    <2>5. ExitInv' BY <1>4, <1>a, <2>0 DEF WorkerSendOk, ExitInv, Explains, TypeOK, M0
    <2>6. guardOk' BY <1>4, <1>a DEF WorkerSendOk
    <2> QED BY <2>1, <2>2, <2>3, <2>4, <2>5, <2>6 DEF Inv
  \* ---------------------------------------------------------------- EnvRefuse
  <1>5. ASSUME NEW w \in Workers, EnvRefuse(w) PROVE Inv'
    <2>0. main = "wait" /\ oMain = "wait" /\ wst[w] = "req" /\ cand[w] \notin matching
      BY <1>5, <1>a DEF EnvRefuse, Alive, PreMain, Coupling
    <2>g. MayRequest(w)
      <3>1. Cardinality(oSeen \union {w}) <= N BY <1>a, CardLe DEF TypeOK
      <3>2. OStOf(oSeen, oSt, w) = "run" BY <1>a, <2>0 DEF Coupling, OStOf, TypeOK
      <3>3. OCandOf(oSeen, oCand, w) = cand[w] BY <1>a, <2>0 DEF Coupling, OCandOf, M0
      <3> QED BY <2>0, <3>1, <3>2, <3>3 DEF MayRequest, OMayRequest
    <2>1. TypeOK' BY <1>5, <1>a DEF EnvRefuse, TypeOK, WStates, OStates, ORefuseCand, ORefuseSt, OCandOf
    <2>2. PreMain' BY <1>5, <1>a, <2>0 DEF EnvRefuse, PreMain, TypeOK
    <2>3. Coupling'
      <3>1. oCand'[w] = cand[w] /\ oCand'[0] = oCand[0] /\ (\A t \in Threads : t # w => oCand'[t] = oCand[t])
        BY <1>5, <1>a, <2>0 DEF EnvRefuse, ORefuseCand, OCandOf, Coupling, TypeOK, M0
      <3>2. oSt'[w] = "refused" /\ (\A t \in Threads : t # w => oSt'[t] = oSt[t])
        BY <1>5, <1>a DEF EnvRefuse, ORefuseSt, TypeOK
      <3> QED BY <1>5, <1>a, <2>0, <3>1, <3>2 DEF EnvRefuse, Coupling, TypeOK, M0
    <2>4. ChanInv'
      <3>1. \A i \in 1..Len(chan) : chan[i].w \in Workers /\ chan[i].w # w
        BY <1>a, <2>0 DEF ChanInv, TypeOK, Msg
      <3>2. oCand'[0] = oCand[0] /\ (\A t \in Threads : t # w => oCand'[t] = oCand[t] /\ oSt'[t] = oSt[t])
        BY <1>5, <1>a DEF EnvRefuse, ORefuseCand, ORefuseSt, TypeOK
      <3> QED BY <1>5, <1>a, <3>1, <3>2 DEF EnvRefuse, ChanInv, Explains, TypeOK, M0
    <2>5. ExitInv' BY <1>5, <2>0 DEF EnvRefuse, ExitInv
    <2>6. guardOk' BY <1>5, <1>a, <2>g DEF EnvRefuse
    <2> QED BY <2>1, <2>2, <2>3, <2>4, <2>5, <2>6 DEF Inv
  \* ---------------------------------------------------------------- WorkerSendErr
  <1>6. ASSUME NEW w \in Workers, WorkerSendErr(w) PROVE Inv'
    <2> DEFINE m == [ok |-> FALSE, p |-> 0, w |-> w]
    <2>0. main = "wait" /\ oMain = "wait" /\ wst[w] = "refused"
      BY <1>6, <1>a DEF WorkerSendErr, Alive, PreMain
    <2>m. m \in Msg BY DEF Msg
    <2>c. /\ chan' \in Seq(Msg) /\ Len(chan') = Len(chan) + 1
          /\ (\A i \in 1..Len(chan) : chan'[i] = chan[i]) /\ chan'[Len(chan) + 1] = m
      BY <1>6, <1>a, <2>m, AppendFacts DEF WorkerSendErr, TypeOK
    <2>1. TypeOK' BY <1>6, <1>a, <2>c DEF WorkerSendErr, TypeOK, WStates
    <2>2. PreMain' BY <1>6, <1>a, <2>0, <2>c DEF WorkerSendErr, PreMain, TypeOK
    <2>3. Coupling' BY <1>6, <1>a, <2>0 DEF WorkerSendErr, Coupling, TypeOK, M0
    <2>4. ChanInv'
      <3>1. \A i \in 1..Len(chan) : chan[i].w \in Workers /\ chan[i].w # w
        BY <1>a, <2>0 DEF ChanInv, TypeOK, Msg
      <3>2. \A i \in 1..Len(chan) : /\ (chan'[i].ok => wst'[chan'[i].w] = "sentok" /\ ExplainsNext(chan'[i].w, chan'[i].p))
                                      /\ (~chan'[i].ok => wst'[chan'[i].w] = "senterr")
        BY <1>6, <1>a, <2>c, <3>1 DEF WorkerSendErr, ChanInv, Explains, ExplainsNext, TypeOK, M0
      <3>3. ~chan'[Len(chan) + 1].ok /\ wst'[chan'[Len(chan) + 1].w] = "senterr"
        BY <1>6, <1>a, <2>c DEF WorkerSendErr, TypeOK
      <3>4. \A i \in 1..Len(chan') : i \in 1..Len(chan) \/ i = Len(chan) + 1
        BY <2>c, <1>a DEF TypeOK
      <3> QED BY <3>2, <3>3, <3>4 DEF ChanInv, Explains, ExplainsNext, M0
    <2>5. ExitInv' BY <1>6, <1>a, <2>0 DEF WorkerSendErr, ExitInv, Explains, TypeOK, M0
    <2>6. guardOk' BY <1>6, <1>a DEF WorkerSendErr
    <2> QED BY <2>1, <2>2, <2>3, <2>4, <2>5, <2>6 DEF Inv
  \* ---------------------------------------------------------------- EnvGrant
  <1>7. ASSUME NEW w \in Workers, NEW p \in 1..K, EnvGrant(w, p) PROVE Inv'
    <2>0. main = "wait" /\ oMain = "wait" /\ wst[w] = "req" /\ cand[w] \notin matching
      BY <1>7, <1>a DEF EnvGrant, Alive, PreMain, Coupling
    <2>g. MayRequest(w)
      <3>1. Cardinality(oSeen \union {w}) <= N BY <1>a, CardLe DEF TypeOK
      <3>2. OStOf(oSeen, oSt, w) = "run" BY <1>a, <2>0 DEF Coupling, OStOf, TypeOK
      <3>3. OCandOf(oSeen, oCand, w) = cand[w] BY <1>a, <2>0 DEF Coupling, OCandOf, M0
      <3> QED BY <2>0, <3>1, <3>2, <3>3 DEF MayRequest, OMayRequest
    <2>u. /\ oCand'[w] = p /\ oCand'[0] = oCand[0] /\ (\A t \in Threads : t # w => oCand'[t] = oCand[t])
          /\ oSt'[w] = "run" /\ (\A t \in Threads : t # w => oSt'[t] = oSt[t])
          /\ cand'[w] = p /\ (\A t \in Threads : t # w => cand'[t] = cand[t])
      BY <1>7, <1>a DEF EnvGrant, OGrantCand, OGrantSt, TypeOK
    <2>1. TypeOK' BY <1>7, <1>a DEF EnvGrant, TypeOK, WStates, OStates, OGrantCand, OGrantSt
    <2>2. PreMain' BY <1>7, <1>a, <2>0 DEF EnvGrant, PreMain, TypeOK
    <2>3. Coupling' BY <1>7, <1>a, <2>0, <2>u DEF EnvGrant, Coupling, TypeOK, M0
    <2>4. ChanInv'
      <3>1. \A i \in 1..Len(chan) : chan[i].w \in Workers /\ chan[i].w # w
        BY <1>a, <2>0 DEF ChanInv, TypeOK, Msg
      <3> QED BY <1>7, <1>a, <2>u, <3>1 DEF EnvGrant, ChanInv, Explains, TypeOK, M0
    <2>5. ExitInv' BY <1>7, <2>0 DEF EnvGrant, ExitInv
    <2>6. guardOk' BY <1>7, <1>a, <2>g DEF EnvGrant
    <2> QED BY <2>1, <2>2, <2>3, <2>4, <2>5, <2>6 DEF Inv
  \* ---------------------------------------------------------------- MainRecv
  <1>8. ASSUME MainRecv PROVE Inv'
    <2>0. main = "wait" /\ oMain = "wait" /\ Len(chan) > 0 /\ chan \in Seq(Msg) /\ Head(chan) = chan[1] /\ 1 \in 1..Len(chan) /\ chan[1] \in Msg
      BY <1>8, <1>a DEF MainRecv, PreMain, TypeOK
    <2>1. TypeOK' BY <1>8, <1>a DEF MainRecv, TypeOK, MStates
    <2>2. PreMain' BY <1>8, <1>a, <2>0 DEF MainRecv, PreMain, TypeOK
    <2>3. Coupling' BY <1>8, <1>a DEF MainRecv, Coupling, M0
    <2>4. ChanInv' BY <1>8, <1>a DEF MainRecv, ChanInv, Explains, M0
    <2>5. ExitInv'
      <3>1. CASE chan[1].ok
        <4>1. chan[1].w \in Workers /\ wst[chan[1].w] = "sentok" /\ Explains(chan[1].w, chan[1].p)
          BY <1>a, <2>0, <3>1 DEF ChanInv, Msg
        <4>2. main' = "printed" /\ out' = chan[1].p BY <1>8, <2>0, <3>1 DEF MainRecv
        <4> QED BY <1>8, <4>1, <4>2 DEF MainRecv, ExitInv, Explains, M0
      <3>2. CASE ~chan[1].ok
        <4>1. chan[1].w \in Workers /\ wst[chan[1].w] = "senterr"
          BY <1>a, <2>0, <3>2 DEF ChanInv, Msg
        <4>2. main' = "failed" BY <1>8, <2>0, <3>2 DEF MainRecv
        <4> QED BY <1>8, <4>1, <4>2 DEF MainRecv, ExitInv
      <3> QED BY <3>1, <3>2
    <2>6. guardOk' BY <1>8, <1>a DEF MainRecv
    <2> QED BY <2>1, <2>2, <2>3, <2>4, <2>5, <2>6 DEF Inv
  \* ---------------------------------------------------------------- stuttering
  <1>9. ASSUME UNCHANGED vars PROVE Inv'
    BY <1>9, <1>a DEF vars, Inv, TypeOK, PreMain, Coupling, ChanInv, ExitInv, Explains, M0
  <1> QED BY <1>1, <1>2, <1>3, <1>4, <1>5, <1>6, <1>7, <1>8, <1>9 DEF Next

THEOREM Soundness == Spec => []JudgeSound
  <1> QED BY InitInv, NextInv, InvJudgeSound, PTL DEF Spec
=============================================================================
