------------------------------ MODULE Gen_C18 ------------------------------
(***************************************************************************)
(* Workload for C18: vanity searches of the real binary under the entropy  *)
(* shim: all 22 single digits (both cases of a-f) x thread counts          *)
(* {0, 1, 2, 16}; two-digit prefixes in lower / upper / mixed case; vanity *)
(* password / account index / path / length variations; repetitions for    *)
(* schedule variety; non-hexadecimal prefixes.                             *)
(***************************************************************************)
EXTENDS GenNew
Threads4 == <<"0", "1", "2", "16">>
NSingle == 22 * 4
SingleAt(j) == NItem("single", New("", "0x" \o Digit22[1 + ((j - 1) % 22)], "", "", "", Threads4[1 + ((j - 1) \div 22)]), <<>>, -1)
Two == <<"0x1a", "0x1A", "0xab", "0xAB", "0xaB", "0xAb", "0x00", "0xff", "0xFF", "0xf0", "0x0F", "0x7e">>
NTwo == Len(Two) * (IF Thorough THEN 5 ELSE 1)
TwoAt(j) == NItem("two", New("", Two[1 + ((j - 1) % Len(Two))], "", "", "", "16"), <<>>, -1)
Three == <<"0xabc", "0xABC", "0x123", "0xFfF", "0x000", "0xd0E">>
NThree == IF Thorough THEN Len(Three) ELSE 0
ThreeAt(j) == NItem("three", New("", Three[j], "", "", "", "16"), <<>>, -1)
\* variations of what the prefix applies to
Variants == <<
  New("12", "0xA", "TREZOR", "", "", "4"), New("18", "0xb", "", "3", "", "4"), New("24", "0xC", "", "", "m/44'/60'/0'/0/9", "4"),
  New("15", "0xd", CpsToStr(<<112, 228, 115, 115>>), "7", "", "2"), New("21", "0xE", "x", "", "m/0'", "0"),
  New("12", "0xf", "", "2147483647", "", "1"), New("24", "0x1", "pw", "", "m/1/2/3/4/5/6", "16"),
  New("", "0x2", "", "0", "", ""), New("12", "0x3F", "TREZOR", "1", "", "16"), New("18", "0xc4", "", "", "m/44'/60'/1'/0/0", "16") >>
NVariants == Len(Variants) * (IF Thorough THEN 4 ELSE 2)
VariantAt(j) == NItem("variants", Variants[1 + ((j - 1) % Len(Variants))], <<>>, -1)
\* repetitions of the same search (schedule variety)
NRepeat == IF Thorough THEN 60 ELSE 18
RepeatAt(j) == NItem("repeat", New("", <<"0xA", "0x9", "0xe">>[1 + (j % 3)], "", "", "", <<"16", "3", "8">>[1 + ((j \div 3) % 3)]), <<>>, -1)
\* prefixes and selectors that must be refused; open spellings
Bad == <<New("", "0xg", "", "", "", "1"), New("", "0x1z", "", "", "", "2"), New("", "0xG1", "", "", "", "0"), New("", "0xzz", "", "", "", "16"),
         New("", "0x12g", "", "", "", "1"), New("", "0x_", "", "", "", "0"), New("", "0x1 ", "", "", "", "1"), New("", "0x-1", "", "", "", "1"),
         New("", "0xa", "", "1", "m/0", "1"), New("", "0xa", "", "", "m/2147483648", "1"), New("", "0xa", "", "", "44'/60'", "0"),
         New("13", "0xa", "", "", "", "1"), New("", "0xa", "", "4294967296", "", "2"), New("", "0xa", "", "2147483648", "", "0"),
         New("", "1a", "", "", "", "1"), New("", "0x", "", "", "", "1"), New("", "0X1a", "", "", "", "1"),
         \* --language: unknown languages are refused, the name is case-insensitive
         New("", "0xa", "", "", "", "1") @@ [language |-> "klingon"], New("12", "", "", "", "", "") @@ [language |-> "japanese"],
         New("", "0xb", "", "", "", "2") @@ [language |-> "ENGLISH"], New("15", "", "", "", "", "") @@ [language |-> "English"],
         New("", "", "", "", "", "") @@ [language |-> "englis"], New("", "", "", "", "", "") @@ [language |-> " english"]>>
BadAt(j) == NItem("refused", Bad[j], <<>>, -1)
\* every character U+0001..U+00FF as the only digit and as the second digit of the prefix (an argument cannot contain
\* NUL): exactly the 22 hexadecimal digits are digits - not their neighbours in ASCII, not control characters that
\* differ from a digit in one bit, not Latin-1 letters
NEveryChar == 2 * NTryChars
EveryCharAt(j) ==
  LET cp == TryChar(1 + ((j - 1) % NTryChars))
      \* (as a second digit a hexadecimal digit gives a valid two-digit prefix: those searches belong to the family "two")
      pre == IF j <= NTryChars \/ IsHexCode(cp) THEN "0x" ELSE "0xa"
  IN  NItem("every_character", New("", pre \o CpsToStr(<<cp>>), "", "", "", IF j % 2 = 0 THEN "1" ELSE "0"), <<>>, -1)
\* LONG prefixes (4 .. 40 digits), feasible because the specification chooses the entropy: the prefix is the beginning of
\* the address of a spec-made target phrase; the shim's schedule feeds the inline search (-j 0) many unrelated
\* candidates first and the target last.  Only the target may be printed.
LongDigits == <<4, 4, 5, 6, 8, 20, 39, 40>>
NLong == Len(LongDigits)
LongAt(j) ==
  LET L     == LongDigits[j]
      cfg0  == [vanity |-> TRUE, threads |-> 0, nibbles |-> <<>>, vpassword |-> <<>>, words |-> 12, comps |-> ForIndex(<<>>)]
      tgt   == Prng(K("longtgt", <<j>>), 16)
      addr  == AddressOfPhrase(cfg0, PhraseOfEntropy(tgt))
      hexd  == HexLower(addr)
      \* mixed case: every second letter upper-case
      pre   == "0x" \o Utf8ToStr([i \in 1..L |-> IF IsLowerHexCode(hexd[i]) /\ i % 2 = 0 THEN hexd[i] - 32 ELSE hexd[i]])
      nBefore == IF L <= 5 THEN (IF Thorough THEN 3000 ELSE 1200) ELSE 150
      c     == New("12", pre, "", "", "", "0")
      it    == NItem("long_prefix_scheduled", c, <<>>, -1)
      sched == [i \in 1..(nBefore + 1) |-> [ord |-> 0, rc |-> 0, hex |-> BytesToHex(IF i <= nBefore THEN Prng(K("longc", <<j, i>>), 16) ELSE tgt)]]
  IN  [it EXCEPT !.in = [@ EXCEPT !.shim = [schedule |-> sched], !.timeout_ms = 120000]]
\* NEAR MISSES: the prefix is the beginning of the candidate's own address with exactly ONE digit changed, at every
\* digit position q of a 7-, 18- and 40-digit prefix; the schedule grants that candidate and then refuses: nothing may be
\* printed (every digit of the prefix counts, wherever it stands)
NearLens == <<7, 18, 40>>
NNear == 7 + 18 + 40
NearAt(j) ==
  LET li   == IF j <= 7 THEN 1 ELSE IF j <= 25 THEN 2 ELSE 3
      L    == NearLens[li]
      q    == IF li = 1 THEN j ELSE IF li = 2 THEN j - 7 ELSE j - 25
      cfg0 == [vanity |-> TRUE, threads |-> 0, nibbles |-> <<>>, vpassword |-> <<>>, words |-> 12, comps |-> ForIndex(<<>>)]
      cnd  == Prng(K("nearc", <<li>>), 16)
      hexd == HexLower(AddressOfPhrase(cfg0, PhraseOfEntropy(cnd)))
      alt(c) == IF c = 102 THEN 48 ELSE IF c = 57 THEN 97 ELSE c + 1          \* the next hexadecimal digit
      pre  == "0x" \o Utf8ToStr([i \in 1..L |-> IF i = q THEN alt(hexd[i]) ELSE hexd[i]])
      c    == New("12", pre, "", "", "", IF j % 2 = 0 THEN "0" ELSE "1")
      it   == NItem("near_miss_scheduled", c, <<>>, -1)
      \* main generates the candidate; the next request (inline: ordinal 0, threaded: ordinal 1) is refused
      sched == <<[ord |-> 0, rc |-> 0, hex |-> BytesToHex(cnd)], [ord |-> IF j % 2 = 0 THEN 0 ELSE 1, rc |-> 0 - 1, hex |-> ""]>>
  IN  [it EXCEPT !.in = [@ EXCEPT !.shim = [schedule |-> sched], !.timeout_ms = 60000]]
O1 == NSingle
O2 == O1 + NTwo
O3 == O2 + NThree
O4 == O3 + NVariants
O5 == O4 + NRepeat
O6 == O5 + Len(Bad)
O7 == O6 + NEveryChar
O8 == O7 + NLong
Count == O8 + NNear
ItemAt(g) ==
  IF g <= O1 THEN SingleAt(g)
  ELSE IF g <= O2 THEN TwoAt(g - O1)
  ELSE IF g <= O3 THEN ThreeAt(g - O2)
  ELSE IF g <= O4 THEN VariantAt(g - O3)
  ELSE IF g <= O5 THEN RepeatAt(g - O4)
  ELSE IF g <= O6 THEN BadAt(g - O5)
  ELSE IF g <= O7 THEN EveryCharAt(g - O6)
  ELSE IF g <= O8 THEN LongAt(g - O7)
  ELSE NearAt(g - O8)
Histories == 0
VARIABLE n
INSTANCE GenBase
=============================================================================
