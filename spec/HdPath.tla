------------------------------- MODULE HdPath -------------------------------
(***************************************************************************)
(* BIP-32 derivation path text.  A path is a sequence of components        *)
(* [hard |-> BOOLEAN, idx |-> natural as big-endian bytes].                 *)
(* Classify(cs) on ASCII/UTF-8 codes:                                      *)
(*   "accept"  m/i1/i2/...  decimal, no sign, no leading zero, < 2^31,     *)
(*             optional trailing apostrophe                                 *)
(*   "reject"  index >= 2^31, empty component, missing root, '-', '.',     *)
(*             anything that is not a number                                *)
(*   "either"  spellings the property leaves open (leading zeros, leading  *)
(*             '+', bare "m", h/H hardened markers, blanks); if accepted    *)
(*             they must mean the canonical path returned here              *)
(* Anchors: src/hdk/path.rs.                                               *)
(***************************************************************************)
EXTENDS Bytes

Two31 == <<128, 0, 0, 0>>
Comp(hard, idx) == [hard |-> hard, idx |-> BnNorm(idx)]

\* split on '/' (47): sequence of code sequences
RECURSIVE SplitGo(_, _, _, _)
SplitGo(cs, i, cur, acc) ==
  IF i > Len(cs) THEN Append(acc, cur)
  ELSE IF cs[i] = 47 THEN SplitGo(cs, i + 1, <<>>, Append(acc, cur))
  ELSE SplitGo(cs, i + 1, Append(cur, cs[i]), acc)
SplitSlash(cs) == SplitGo(cs, 1, <<>>, <<>>)

IsBlank(c) == c \in {32, 9, 10, 13}
RECURSIVE TrimLeft(_), TrimRight(_)
TrimLeft(cs)  == IF Len(cs) > 0 /\ IsBlank(cs[1]) THEN TrimLeft(Tail(cs)) ELSE cs
TrimRight(cs) == IF Len(cs) > 0 /\ IsBlank(cs[Len(cs)]) THEN TrimRight(SubSeq(cs, 1, Len(cs) - 1)) ELSE cs
Trim(cs) == TrimRight(TrimLeft(cs))

\* one component: [c |-> "accept"|"either"|"reject", comp]
ClassComp(raw) ==
  LET cs      == Trim(raw)
      blanks  == cs # raw
      marked  == Len(cs) > 0 /\ cs[Len(cs)] \in {39, 104, 72}            \* ' h H
      altMark == marked /\ cs[Len(cs)] # 39
      body0   == IF marked THEN SubSeq(cs, 1, Len(cs) - 1) ELSE cs
      plus    == Len(body0) > 0 /\ body0[1] = 43
      body    == IF plus THEN Tail(body0) ELSE body0
  IN
  IF body = <<>> \/ ~AllDigit(body) THEN [c |-> "reject", why |-> "not_a_number"]
  ELSE
  LET ds  == DecVals(body)
      sig == SubSeq(ds, FirstNonZero(ds, 1), Len(ds))            \* significant digits
      big == Len(sig) > 10 \/ ~BnLt(BnFromDec(sig), Two31)
      leadingZero == Len(body) > 1 /\ body[1] = 48
  IN  IF big THEN [c |-> "reject", why |-> "index_ge_2^31"]
      ELSE [c |-> IF blanks \/ altMark \/ plus \/ leadingZero THEN "either" ELSE "accept",
            comp |-> Comp(marked, BnFromDec(ds)), why |-> ""]

Classify(raw) ==
  LET cs == Trim(raw)
      blanks == cs # raw
  IN
  IF cs = <<109>> THEN [c |-> "either", comps |-> <<>>, why |-> ""]                   \* bare "m"
  ELSE IF Len(cs) < 2 \/ cs[1] # 109 \/ cs[2] # 47 THEN [c |-> "reject", why |-> "missing_root"]
  ELSE
  LET parts == SplitSlash(SubSeq(cs, 3, Len(cs)))
      cc    == Mat([i \in 1..Len(parts) |-> ClassComp(parts[i])])
  IN  IF \E i \in 1..Len(cc) : cc[i].c = "reject"
        THEN [c |-> "reject", why |-> cc[CHOOSE i \in 1..Len(cc) : cc[i].c = "reject"].why]
      ELSE [c |-> IF blanks \/ \E i \in 1..Len(cc) : cc[i].c = "either" THEN "either" ELSE "accept",
            comps |-> Mat([i \in 1..Len(cc) |-> cc[i].comp]), why |-> ""]

\* canonical text (ASCII codes)
PrintComp(c) == DecCodes(BnToDec(c.idx)) \o (IF c.hard THEN <<39>> ELSE <<>>)
PrintPath(comps) == <<109>> \o Concat([i \in 1..Len(comps) |-> <<47>> \o PrintComp(comps[i])])

\* default Ethereum path for an account index (a natural as bytes, < 2^31)
ForIndex(idx) == <<Comp(TRUE, <<44>>), Comp(TRUE, <<60>>), Comp(TRUE, <<>>), Comp(FALSE, <<>>), Comp(FALSE, idx)>>
=============================================================================
