----------------------------- MODULE Gen_C10cli -----------------------------
(***************************************************************************)
(* Workload for C10 through the real binary: `hash message` and            *)
(* `sign message` on the four input channels (regular file, standard       *)
(* input, named pipe, /dev/stdin) with content that carries prefixes or    *)
(* suffixes which text tools strip or translate (byte order marks, line    *)
(* ends, NUL, hex / option lead-ins, the EIP-191 prefix itself), every     *)
(* length 0..70, and every first byte 0..255.  The message is the bytes.   *)
(***************************************************************************)
EXTENDS GenCli
MsgCmd(sign, chan, bytes) ==
  Cmd(IF sign THEN "sign" ELSE "hash", "message", IF sign THEN PlainAcct(Mn2) ELSE NoAcct, <<>>, "", chan, [hex |-> BytesToHex(bytes)])
NMagicItems == NMagicContents * 2 * 4
MagicAt(j) ==
  LET k  == (j - 1) % NMagicContents
      sg == ((j - 1) \div NMagicContents) % 2 = 1
      ch == (j - 1) \div (2 * NMagicContents)
  IN  CItem("magic_content", MsgCmd(sg, ChanNo(ch), MagicContent(k)))
NLens == 71 * 2
LenAt(j) ==
  LET len == (j - 1) % 71
  IN  CItem("lengths", MsgCmd(j > 71, ChanNo(j), Prng(Key(Seed \o "/c10cli", <<j>>), len)))
NFirst == 256
FirstAt(j) == CItem("first_byte", MsgCmd(FALSE, ChanNo(j), <<j - 1>> \o StrToUtf8("abc")))
O1 == NMagicItems
O2 == O1 + NLens
Count == O2 + NFirst
ItemAt(g) ==
  IF g <= O1 THEN MagicAt(g)
  ELSE IF g <= O2 THEN LenAt(g - O1)
  ELSE FirstAt(g - O2)
Histories == 0
VARIABLE n
INSTANCE GenBase
=============================================================================
