------------------------------ MODULE Gen_C16 ------------------------------
(***************************************************************************)
(* Workload for C16: every command form x mnemonic x passphrase x account  *)
(* selector x option source (flag / environment) x input channel, against  *)
(* the real binary; the exhaustive source lattice on `address`; sessions   *)
(* hash X, address, sign X whose outputs must agree.                       *)
(***************************************************************************)
EXTENDS GenCli

Passwords == <<"", "TREZOR", CpsToStr(<<112, 228, 115, 115>>), CpsToStr(<<65313, 65314, 65315>>), "pass word">>
\* selector: <<kind, text>>  kind 0 default, 1 account index, 2 hd path
Selectors == << <<0, "">>, <<1, "0">>, <<1, "1">>, <<1, "2">>, <<1, "7">>, <<1, "2147483647">>,
                <<2, "m/44'/60'/0'/0/3">>, <<2, "m/0">>, <<2, "m/0'/1">>, <<2, "m/44'/60'/1'/0/0">>, <<2, "m/2147483647'/0">>,
                <<2, "m/44'/60'/0'/0/0/1">>, <<2, "m/44'/60'/0'/0/7/3'/2">>, <<2, "m/44'/60'/0'">> >>
Src(r) == IF r = 0 THEN "flag" ELSE "env"
AcctOf(mn, mnSrc, pw, pwSrc, sel, selSrc) ==
  [mnemonic |-> Opt(mnSrc, mn),
   password |-> IF pw = "" /\ pwSrc = "none" THEN NoOpt ELSE Opt(pwSrc, pw),
   index |-> IF sel[1] = 1 THEN Opt(selSrc, sel[2]) ELSE NoOpt,
   path  |-> IF sel[1] = 2 THEN Opt(selSrc, sel[2]) ELSE NoOpt]

\* a small typed data document with a PRNG value
Member(name, type) == NObj(<< <<"name", NStr(name)>>, <<"type", NStr(type)>> >>)
TdDoc(r) ==
  NObj(<< <<"types", NObj(<< <<"EIP712Domain", NArr(<<Member("name", "string"), Member("chainId", "uint256")>>)>>,
                            <<"Person", NArr(<<Member("name", "string"), Member("wallet", "address")>>)>>,
                            <<"Mail", NArr(<<Member("from", "Person"), Member("to", "Person[]"), Member("amount", "int64"),
                                             Member("contents", "string")>>)>> >>)>>,
          <<"primaryType", NStr("Mail")>>,
          <<"domain", NObj(<< <<"name", NStr("Ether Mail")>>, <<"chainId", NNum("1")>> >>)>>,
          <<"message", NObj(<< <<"from", NObj(<< <<"name", NStr("Cow")>>, <<"wallet", NHexBytes(Prng(K("tdw", r), 20))>> >>)>>,
                              <<"to", NArr(<<NObj(<< <<"name", NStr("Bob")>>, <<"wallet", NHexBytes(Prng(K("tdx", r), 20))>> >>)>>)>>,
                              <<"amount", NStr("-" \o ToString(PrngNat(K("tda", r), 100000)))>>,
                              <<"contents", NStr("Hello, Bob!")>> >>)>> >>)
TxDocOf(r) == MkDoc(Default(Kinds[1 + PrngNat(K("c16k", r), 3)], r))
MsgOf(r) == BytesToHex(Prng(K("c16m", r), PrngNat(K("c16l", r), 80)))

\* form f in 1..13 with account acct, channel chan, randomness r
Form(f, acct, chan, r) ==
  IF f = 1 THEN Cmd("address", "", acct, <<>>, "", "none", [hex |-> ""])
  ELSE IF f = 2 THEN Cmd("export", "", acct, <<>>, "", "none", [hex |-> ""])
  ELSE IF f = 3 THEN Cmd("public-key", "", acct, <<>>, "", "none", [hex |-> ""])
  ELSE IF f = 4 THEN Cmd("sign", "message", acct, <<>>, "", chan, [hex |-> MsgOf(r)])
  ELSE IF f = 5 THEN Cmd("sign", "transaction", acct, <<"allow_missing">>, "", chan, [doc |-> TxDocOf(r)])
  ELSE IF f = 6 THEN Cmd("sign", "transaction", acct, <<"signature_only", "allow_missing">>, "", chan, [doc |-> TxDocOf(r)])
  ELSE IF f = 7 THEN Cmd("sign", "typeddata", acct, <<>>, "", chan, [doc |-> TdDoc(r)])
  ELSE IF f = 8 THEN Cmd("sign", "raw", acct, <<>>, "", "arg", [arg |-> (IF r[Len(r)] % 2 = 0 THEN "0x" ELSE "") \o BytesToHex(Prng(K("c16r", r), 32))])
  ELSE IF f = 9 THEN Cmd("hash", "message", NoAcct, <<>>, "", chan, [hex |-> MsgOf(r)])
  ELSE IF f = 10 THEN Cmd("hash", "transaction", NoAcct, <<>>, "", chan, [doc |-> TxDocOf(r)])
  ELSE IF f = 11 THEN Cmd("hash", "typeddata", NoAcct, <<>>, "", chan, [doc |-> TdDoc(r)])
  ELSE IF f = 12 THEN Cmd("hash", "typeddata", NoAcct, <<"message_hash">>, "", chan, [doc |-> TdDoc(r)])
  ELSE Cmd("hash", "data", NoAcct, <<>>, "", chan, [hex |-> MsgOf(r)])

\* ---- A: PRNG sample over all dimensions; the form cycles so that every form is hit equally ----
NSample == IF Thorough THEN 7000 ELSE 330
SampleAt(j) ==
  LET r    == <<70, j>>
      mn   == Mnemonics[1 + PrngNat(K("smn", r), Len(Mnemonics))]
      pw   == Passwords[1 + PrngNat(K("spw", r), Len(Passwords))]
      sel  == Selectors[1 + PrngNat(K("ssel", r), Len(Selectors))]
      acct == AcctOf(mn, Src(PrngNat(K("s1", r), 2)), pw, IF pw = "" /\ PrngNat(K("s2", r), 2) = 0 THEN "none" ELSE Src(PrngNat(K("s3", r), 2)),
                     sel, Src(PrngNat(K("s4", r), 2)))
      cmd  == Form(1 + (j % 13), acct, ChanNo(PrngNat(K("s5", r), 4)), r)
  IN  \* every fourth sample runs under the ambient environment
      IF j % 4 = 0 THEN AItem("sample_ambient_env", cmd) ELSE CItem("sample", cmd)

\* ---- B: the exhaustive option source lattice on `address` (incl. both selectors: must fail) ----
SrcChoices == <<"none", "flag", "env">>
NLattice == 2 * 3 * 3 * 3
LatticeAt(j) ==
  LET mnSrc == Src((j - 1) % 2)
      pwSrc == SrcChoices[1 + (((j - 1) \div 2) % 3)]
      ixSrc == SrcChoices[1 + (((j - 1) \div 6) % 3)]
      paSrc == SrcChoices[1 + ((j - 1) \div 18)]
      acct  == [mnemonic |-> Opt(mnSrc, Mn2), password |-> IF pwSrc = "none" THEN NoOpt ELSE Opt(pwSrc, "TREZOR"),
                index |-> IF ixSrc = "none" THEN NoOpt ELSE Opt(ixSrc, "5"),
                path |-> IF paSrc = "none" THEN NoOpt ELSE Opt(paSrc, "m/44'/60'/0'/0/5")]
  IN  CItem("lattice", Form(1 + (j % 3), acct, "none", <<71, j>>))

\* ---- C: sessions: hash X ; address ; sign X  with the same selector --------------------------
NSessions == IF Thorough THEN 300 ELSE 24
SessionAt(g) ==
  LET t    == (g - 1) \div 3
      step == (g - 1) % 3
      r    == <<72, t>>
      sel  == Selectors[1 + (t % Len(Selectors))]
      acct == AcctOf(Mnemonics[1 + (t % 3)], Src(t % 2), Passwords[1 + (t % Len(Passwords))], "env", sel, Src((t \div 2) % 2))
      x    == t % 3                \* 0 message, 1 transaction, 2 typed data
      sid  == "s" \o ToString(t)
      hashForm == <<9, 10, 11>>[x + 1]
      signForm == <<4, 6, 7>>[x + 1]
  IN  IF step = 0 THEN SItem("session", sid, Form(hashForm, NoAcct, "file", r), <<>>)
      ELSE IF step = 1 THEN SItem("session", sid, Form(1, acct, "none", r), <<>>)
      ELSE SItem("session", sid, Form(signForm, acct, "stdin", r), <<"signature_recovers", g - 2, g - 1>>)

\* ---- D: missing mnemonic, invalid mnemonic, unusable selectors ----------------------------------
BadAccts == <<
  [mnemonic |-> NoOpt, password |-> NoOpt, index |-> NoOpt, path |-> NoOpt],
  [mnemonic |-> Opt("env", "abandon abandon abandon"), password |-> NoOpt, index |-> NoOpt, path |-> NoOpt],
  [mnemonic |-> Opt("flag", Mn1 \o " about"), password |-> NoOpt, index |-> NoOpt, path |-> NoOpt],
  [mnemonic |-> Opt("env", Mn2), password |-> NoOpt, index |-> NoOpt, path |-> Opt("flag", "m/2147483648'")],
  [mnemonic |-> Opt("env", Mn2), password |-> NoOpt, index |-> NoOpt, path |-> Opt("env", "44'/60'/0'/0/0")],
  [mnemonic |-> Opt("env", Mn2), password |-> NoOpt, index |-> Opt("flag", "2147483648"), path |-> NoOpt],
  [mnemonic |-> Opt("env", Mn2), password |-> NoOpt, index |-> Opt("env", "4294967296"), path |-> NoOpt],
  [mnemonic |-> Opt("env", Mn2), password |-> NoOpt, index |-> Opt("flag", "-1"), path |-> NoOpt],
  [mnemonic |-> Opt("env", Mn2), password |-> NoOpt, index |-> Opt("flag", "18446744073709551616"), path |-> NoOpt] >>
BadAt(j) == CItem("bad_account", Form(1 + (j % 4), BadAccts[1 + ((j - 1) % Len(BadAccts))], "none", <<73, j>>))
NBad == 2 * Len(BadAccts)

\* ---- E: large inputs on both channels (pipe buffer and read-size boundaries) ----------------------
BigSizes == <<8191, 8192, 8193, 65536, 65537, 200000>>
NBig == Len(BigSizes) * 3 * 2 + 4
BigAt(j) ==
  IF j <= Len(BigSizes) * 6 THEN
    LET size == BigSizes[1 + ((j - 1) % Len(BigSizes))]
        f    == <<13, 9, 4>>[1 + (((j - 1) \div Len(BigSizes)) % 3)]
        chan == IF (j - 1) \div (3 * Len(BigSizes)) = 0 THEN "stdin" ELSE "file"
        data == [hex |-> BytesToHex([i \in 1..size |-> (i * 11 + size) % 256])]
        c0   == Form(f, PlainAcct(Mn2), chan, <<74, j>>)
    IN  CItem("big_input", [c0 EXCEPT !.inp = data])
  ELSE
    \* JSON documents larger than 8 KiB and 64 KiB
    LET q    == j - Len(BigSizes) * 6
        size == IF q <= 2 THEN 9000 ELSE 70000
        doc  == MkDoc([Default("1559", <<75, q>>) EXCEPT !["data"] = NHexBytes([i \in 1..size |-> (i * 3 + q) % 256])])
    IN  CItem("big_input", Cmd(IF q % 2 = 1 THEN "hash" ELSE "sign", "transaction", IF q % 2 = 1 THEN NoAcct ELSE PlainAcct(Mn1),
                               <<>>, "", "stdin", [doc |-> doc]))

\* ---- F: accounts whose private key starts with a zero nibble / a zero byte (spec-directed search) -------
KeyOfIndex(i) == Derive(SeedOf(Mn2, <<>>), ForIndex(BnFromNat(i))).k
NZeroKey == 2 * 4
ZeroKeyAt(j) ==
  LET byte == j > 4
      i    == IF byte THEN CHOOSE c \in 0..3000 : KeyOfIndex(c)[1] = 0
              ELSE CHOOSE c \in 0..400 : KeyOfIndex(c)[1] < 16 /\ KeyOfIndex(c)[1] > 0
      acct == [mnemonic |-> Opt("env", Mn2), password |-> NoOpt, index |-> Opt(IF j % 2 = 0 THEN "flag" ELSE "env", ToString(i)), path |-> NoOpt]
  IN  CItem("zero_key", Form(<<2, 3, 1, 8>>[1 + ((j - 1) % 4)], acct, "none", <<76, j>>))

\* ---- G: standard input delivered in several pieces (short reads); the bytes are what counts ----------------
ChunkPlans == << <<6>>, <<1, 1, 1>>, <<4095, 1>>, <<4096, 7>>, <<100, 5000>>, <<8191, 2>> >>
NChunked == Len(ChunkPlans) * 4
ChunkedAt(j) ==
  LET plan == ChunkPlans[1 + ((j - 1) % Len(ChunkPlans))]
      f    == <<13, 9, 4, 10>>[1 + ((j - 1) \div Len(ChunkPlans))]       \* hash data, hash message, sign message, hash transaction
      size == 9000 + j
      c0   == Form(f, PlainAcct(Mn2), "stdin", <<77, j>>)
      c    == IF f = 10 THEN c0 ELSE [c0 EXCEPT !.inp = [hex |-> BytesToHex([i \in 1..size |-> (i * 17 + j) % 256])]]
  IN  [i |-> 0, op |-> "cli", fam |-> "chunked_stdin", in |-> CliIn(c) @@ [stdin_chunks |-> plan]]

\* ---- H: content with prefixes / suffixes that text tools treat specially x the four input channels ----------
\* (hash data, hash message, sign message: the input is raw bytes, every byte counts)
MagicForms == <<13, 9, 4>>
NMagicItems == NMagicContents * 3 * (IF Thorough THEN 4 ELSE 1)
MagicAt(j) ==
  LET k  == (j - 1) % NMagicContents
      f  == ((j - 1) \div NMagicContents) % 3
      ch == (j - 1) \div (3 * NMagicContents)                 \* thorough: every channel; quick: channels rotate
      c0 == Form(MagicForms[f + 1], PlainAcct(Mn2), ChanNo(k + f + ch), <<78, j>>)
  IN  CItem("magic_content", [c0 EXCEPT !.inp = [hex |-> BytesToHex(MagicContent(k))]])

\* ---- I: the input file's NAME (regular file and named pipe): only the path "-" itself means standard input -----
NameForms == <<13, 9, 4, 10>>
NNames == Len(FileNames) * 4 * 2
NameAt(j) ==
  LET nm == FileNames[1 + ((j - 1) % Len(FileNames))]
      f  == NameForms[1 + (((j - 1) \div Len(FileNames)) % 4)]
      ch == IF (j - 1) \div (4 * Len(FileNames)) = 0 THEN "file" ELSE "fifo"
      c0 == Form(f, PlainAcct(Mn2), ch, <<79, j>>)
  IN  CItem("file_names", [c0 EXCEPT !.inp = @ @@ [fname |-> nm]])

\* ---- J: HUGE inputs (2^24 + 3, 2^26 + 19, 2^27 + 1 bytes) on every channel: the input is all the bytes -----------------
HugeSizes == <<67108883, 16777219, 134217729>>
HugeForms == <<13, 9, 4>>                 \* hash data, hash message, sign message
NHugeIn == IF Thorough THEN 3 * 3 * 4 ELSE 4
HugeInAt(j) ==
  LET ch == ChanNo(j - 1)
      f  == HugeForms[1 + (((j - 1) \div 4) % 3)]
      sz == HugeSizes[1 + ((j - 1) \div 12)]
      c0 == Form(f, PlainAcct(Mn2), ch, <<80, j>>)
  IN  CItem("huge_input", [c0 EXCEPT !.inp = [hex |-> "", rl |-> [pre |-> <<104, 105>>, pat |-> <<(j * 37) % 256>>, rep |-> sz - 2, tail |-> <<>>]]])

\* ---- K: spelling styles of the command line (Args.tla): the meaning, hence the result, is the same in every style -------
\* style number k in 0..39: option spelling x reversed account options x inner options after the positional x "--"
StyleAt(k) == [opt |-> Styles[1 + (k % 5)], rev |-> (k \div 5) % 2 = 1, late |-> (k \div 10) % 2 = 1, dd |-> (k \div 20) % 2 = 1]
NStyles == IF Thorough THEN 13 * 40 * 3 ELSE 13 * 20
StyleItemAt(j) ==
  LET r    == <<81, j>>
      f    == 1 + (j % 13)
      k    == IF Thorough THEN (j \div 13) % 40 ELSE ((j \div 13) * 7 + f) % 40
      mn   == Mnemonics[1 + PrngNat(K("kmn", r), 3)]
      pw   == <<"", "TREZOR", "pass word", "a=b", "=x", "-">>[1 + PrngNat(K("kpw", r), 6)]
      sel  == Selectors[1 + PrngNat(K("ksel", r), Len(Selectors))]
      acct == AcctOf(mn, Src(PrngNat(K("k1", r), 4) \div 3), pw, IF pw = "" /\ PrngNat(K("k2", r), 2) = 0 THEN "none" ELSE Src(PrngNat(K("k3", r), 3) \div 2),
                     sel, Src(PrngNat(K("k4", r), 3) \div 2))
      c0   == Form(f, acct, ChanNo(PrngNat(K("k5", r), 4)), r)
      c1   == IF f = 10 /\ j % 2 = 0 THEN [c0 EXCEPT !.sigtext = "0x" \o BytesToHex(Prng(K("ksg", r), 31) \o <<1>> \o Prng(K("ksh", r), 31) \o <<1, 27 + (j % 2)>>)] ELSE c0
  IN  CItem("arg_styles", c1 @@ [style |-> StyleAt(k)])

\* ---- L: slips on the command line: a dropped / repeated token, an unknown option, a surplus argument, account options of
\* `sign` after the inner subcommand - among them the two selectors split around it, which must be refused (C16) ---------
SlipForms == <<1, 4, 5, 6, 7, 8, 10, 12, 13, 2>>
FlagAcct(sel2) == [mnemonic |-> Opt("flag", Mn2), password |-> Opt("flag", "TREZOR"),
                   index |-> IF sel2 \in {1, 3} THEN Opt("flag", "2") ELSE NoOpt,
                   path |-> IF sel2 \in {2, 3} THEN Opt("flag", "m/44'/60'/0'/0/5") ELSE NoOpt]
LateSets == << <<"path">>, <<"index">>, <<"index", "path">>, <<"path", "password">>, <<"index", "mnemonic">>, <<"password">>, <<"mnemonic">>,
              <<"mnemonic", "password", "index", "path">> >>
NSplit == 5 * Len(LateSets) * 2
NSlips == (IF Thorough THEN 1200 ELSE 360) + NSplit
SlipAt(j) ==
  IF j <= NSplit THEN
    \* both selectors as flags, some of the account options after the inner subcommand
    LET q    == j - 1
        late == LateSets[1 + (q % Len(LateSets))]
        f    == <<4, 5, 6, 7, 8>>[1 + ((q \div Len(LateSets)) % 5)]
        both == q \div (5 * Len(LateSets)) = 0
        c0   == Form(f, FlagAcct(IF both THEN 3 ELSE 1 + (q % 2)), "file", <<82, j>>)
    IN  CItem(IF both THEN "selectors_split_around_subcommand" ELSE "account_options_after_subcommand",
              c0 @@ [style |-> StyleAt(q % 2), mut |-> [k |-> "acct_late", at |-> 0, late |-> late]])
  ELSE
    LET q   == j - NSplit
        f   == SlipForms[1 + (q % Len(SlipForms))]
        c0  == Form(f, FlagAcct((q \div 3) % 3), ChanNo(q), <<83, j>>) @@ [style |-> StyleAt(((q \div 7) % 5) + 10 * ((q \div 2) % 2))]
        n   == Len(Argv0(c0))
        kind == <<"drop", "dup", "unknown">>[1 + ((q \div Len(SlipForms)) % 3)]
        at  == 2 + ((q \div (3 * Len(SlipForms))) % (n - 1))
    IN  IF q % 29 = 0 THEN CItem("arg_slips", c0 @@ [mut |-> [k |-> "surplus", at |-> 0]])
        ELSE CItem("arg_slips", c0 @@ [mut |-> [k |-> kind, at |-> at]])

\* ---- M: requests for text: --help / -h / help / --version / -V in every place of lines of every form, with the secrets
\* in the environment and on the line: status 0 or an ordinary refusal, never a crash (the text itself is not specified)
TextToks == <<"--help", "-h", "help", "--version", "-V">>
NTextReq == IF Thorough THEN 400 ELSE 120
TextReqAt(j) ==
  LET f   == SlipForms[1 + (j % Len(SlipForms))]
      c0  == Form(f, IF j % 2 = 0 THEN FlagAcct(j % 3) ELSE PlainAcct(Mn2), ChanNo(j), <<84, j>>) @@ [style |-> StyleAt(j % 5)]
      n   == Len(Argv0(c0))
  IN  CItem("text_requests", c0 @@ [mut |-> [k |-> "text", at |-> 1 + ((j \div Len(SlipForms)) % (n + 1)), tok |-> TextToks[1 + ((j \div 3) % 5)]]])

O1 == NSample
O2 == O1 + NLattice
O3 == O2 + 3 * NSessions
O4 == O3 + NBad
O5 == O4 + NBig
O6 == O5 + NZeroKey
O7 == O6 + NChunked
O8 == O7 + NMagicItems
O9 == O8 + NNames
O10 == O9 + NHugeIn
O11 == O10 + NStyles
O12 == O11 + NSlips
Count == O12 + NTextReq
ItemAt(g) ==
  IF g <= O1 THEN SampleAt(g)
  ELSE IF g <= O2 THEN LatticeAt(g - O1)
  ELSE IF g <= O3 THEN SessionAt(g - O2)
  ELSE IF g <= O4 THEN BadAt(g - O3)
  ELSE IF g <= O5 THEN BigAt(g - O4)
  ELSE IF g <= O6 THEN ZeroKeyAt(g - O5)
  ELSE IF g <= O7 THEN ChunkedAt(g - O6)
  ELSE IF g <= O8 THEN MagicAt(g - O7)
  ELSE IF g <= O9 THEN NameAt(g - O8)
  ELSE IF g <= O10 THEN HugeInAt(g - O9)
  ELSE IF g <= O11 THEN StyleItemAt(g - O10)
  ELSE IF g <= O12 THEN SlipAt(g - O11)
  ELSE TextReqAt(g - O12)
Histories == 0
VARIABLE n
INSTANCE GenBase
=============================================================================
