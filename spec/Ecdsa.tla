------------------------------- MODULE Ecdsa -------------------------------
(***************************************************************************)
(* secp256k1 keys, Ethereum addresses and deterministic ECDSA.  Curve      *)
(* multiplication, modular inverse/product and the RFC 6979 nonce are      *)
(* primitives (Prim.tla); range checks, comparison with n and n/2, the     *)
(* low-s flip and its parity flip, address slicing and EIP-55 casing are   *)
(* TLA+ here.  Anchors: src/account.rs, src/account/public.rs,             *)
(* src/account/signature.rs.                                               *)
(***************************************************************************)
EXTENDS Bytes, Prim

\* group order n and floor(n / 2), big-endian
CurveN == <<255,255,255,255,255,255,255,255,255,255,255,255,255,255,255,254,
            186,174,220,230,175,72,160,59,191,210,94,140,208,54,65,65>>
HalfN  == <<127,255,255,255,255,255,255,255,255,255,255,255,255,255,255,255,
            93,87,110,115,87,164,80,29,223,233,47,70,104,27,32,160>>

InScalarRange(b) == ~BnIsZero(b) /\ BnLt(b, CurveN)
ValidSecret(b)   == Len(b) = 32 /\ InScalarRange(b)
ModN(z)          == IF BnLt(z, CurveN) THEN BnNorm(z) ELSE BnSub(z, CurveN)    \* for z < 2n

Pub64(d)   == EcBaseMul(d)
Pub65(d)   == <<4>> \o Pub64(d)
Pub33(d)   == LET p == Pub64(d) IN <<2 + (p[64] % 2)>> \o SubSeq(p, 1, 32)
AddressOfPub(pub64) == SubSeq(Keccak256(pub64), 13, 32)
AddressOf(d) == AddressOfPub(Pub64(d))

\* EIP-55: ASCII codes of "0x" and 40 digits; digit i is upper-case iff
\* nibble i of keccak(lower-case hex text) is >= 8.
Eip55(addr) ==
  LET low == HexLower(addr)
      h   == Keccak256(low)
      nib(i) == IF i % 2 = 1 THEN h[(i + 1) \div 2] \div 16 ELSE h[i \div 2] % 16
  IN  <<48, 120>> \o [i \in 1..40 |->
        IF low[i] >= 97 /\ nib(i) >= 8 THEN low[i] - 32 ELSE low[i]]

\* Deterministic signature of 32-byte digest z with key d (ValidSecret(d)):
\* [r, s (32 bytes each), par]
Sign(d, z) ==
  LET k    == Rfc6979K(d, z)
      R    == EcBaseMul(k)
      rx   == SubSeq(R, 1, 32)
      yOdd == R[64] % 2
      r    == ModN(rx)
      e    == ModN(z)
      s0   == BnMulMod(BnInvMod(k, CurveN), BnAddMod(e, BnNorm(BnMulMod(r, d, CurveN)), CurveN), CurveN)
      high == BnLt(HalfN, s0)
  IN  [r   |-> BnFixed(r, 32),
       s   |-> IF high THEN BnFixed(BnSub(CurveN, s0), 32) ELSE BnFixed(s0, 32),
       par |-> IF high THEN 1 - yOdd ELSE yOdd,
       flipped |-> high]

LowS(s) == ~BnIsZero(s) /\ BnLe(s, HalfN)

\* ---- bulk oracle ----------------------------------------------------------------------
\* A sweep of n signatures is compared through ONE hash: the digests are SHA-256(seed || i as 8 big-endian bytes) for
\* i = from .. from + n - 1, and the value is SHA-256 over the concatenation of r || s || yParity of Sign(d, digest_i).
\* BulkSignHash is evaluated natively (overrides/HdwPrims.java, fixed-base comb multiplication) so that 10^5 .. 10^7
\* signatures per run are feasible; BulkSignHashSpec is its definition (PrimTest compares the two).
BulkDigest(seed, i) == Sha256(seed \o BnFixed(BnFromNat(i), 8))
SigBytes(sig) == sig.r \o sig.s \o <<sig.par>>
BulkSignHashSpec(d, seed, from, n) ==
  Sha256(Concat([i \in 1..n |-> SigBytes(Sign(d, BulkDigest(seed, from + i - 1)))]))
BulkSignHash(d, seed, from, n) == BulkSignHashSpec(d, seed, from, n)

\* validity of an observed signature for key d over digest z, independent of how it was made
GoodSignature(d, z, r, s, par) ==
  /\ Len(r) = 32 /\ Len(s) = 32 /\ par \in {0, 1}
  /\ InScalarRange(r)
  /\ LowS(s)
  /\ EcVerify(z, r, s, Pub64(d))
  /\ EcRecover(z, r, s, par) = Pub64(d)
=============================================================================
