SPECIFICATION Spec
CONSTANT NW = 2
INVARIANT EmitInv
CHECK_DEADLOCK FALSE
