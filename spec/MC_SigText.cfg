SPECIFICATION Spec
INVARIANT RoundTrip
INVARIANT Malformed
CHECK_DEADLOCK FALSE
