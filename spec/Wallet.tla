-------------------------------- MODULE Wallet --------------------------------
(***************************************************************************)
(* The system: one invocation of the hdwallet command line tool as a       *)
(* pipeline of stages                                                       *)
(*                                                                         *)
(*   options -> account -> input -> decode -> guard -> digest -> sign      *)
(*           -> print            (any stage may go to "failed")            *)
(*                                                                         *)
(* A command is a record (rendered to argv / environment by Argv / EnvOf;  *)
(* flag and variable names are constants of this specification):           *)
(*   sub   "address" | "export" | "public-key" | "sign" | "hash" | "hex"    *)
(*   what  sign/hash: "transaction" | "message" | "typeddata" | "raw" |     *)
(*         "data";  hex: "encode" | "decode";  "" otherwise                 *)
(*   acct  [mnemonic, password, index, path]: each [src, v] with src in     *)
(*         "none" | "flag" | "env" and v the text                           *)
(*   flags subset of {"signature_only", "allow_missing", "message_hash"}    *)
(*         as a sequence of strings                                         *)
(*   sigtext  text given to hash transaction --signature ("" = none)        *)
(*   chan  "file" | "stdin" | "fifo" | "devstdin" | "arg" | "none": where   *)
(*         the input comes from: a regular file, standard input ("-"), a    *)
(*         named pipe given as a path, the path /dev/stdin, the argument    *)
(*         itself.  The input is the bytes readable there, whatever the     *)
(*         kind of file: no stage below depends on chan                     *)
(*   inp   the input: [doc |-> AST] for JSON documents, [hex |-> "..."] for *)
(*         raw bytes, [arg |-> text] for `sign raw`                         *)
(*                                                                         *)
(* Step(st) advances the pipeline by one stage; Run(cmd) iterates it to a  *)
(* terminal state.  MC_Wallet model-checks the stage machine over a set of *)
(* concrete commands; the trace judge compares the recorded exit status    *)
(* and stdout of the real binary with Run(cmd).                            *)
(* Terminal states: pc = "printed" (status 0, stdout = out),               *)
(*   "failed" (ordinary error: non-zero status that is not a crash, empty  *)
(*   stdout, a message on stderr), "open" (the property leaves the         *)
(*   outcome open: anything but a crash), and for open spellings           *)
(*   "printed" with either = TRUE (refusing is allowed as well).           *)
(* Anchors: src/main.rs, src/cmd.rs, src/cmd/*.rs.                          *)
(***************************************************************************)
EXTENDS Bytes, Prim, Numbers, Rlp, Ecdsa, Tx, Bip39, HdPath, Bip32, SigText, Eip191, HexCodec, Eip712, Args

NoOpt == [src |-> "none", v |-> ""]
HasFlag(cmd, f) == \E i \in 1..Len(cmd.flags) : cmd.flags[i] = f

\* ---- rendering -----------------------------------------------------------------
OptNames == [mnemonic |-> <<"--mnemonic", "MNEMONIC">>, password |-> <<"--password", "PASSWORD">>,
             index |-> <<"--account-index", "ACCOUNT_INDEX">>, path |-> <<"--hd-path", "HD_PATH">>]
OptOrder == <<"mnemonic", "password", "index", "path">>
NeedsAccount(cmd) == cmd.sub \in {"address", "export", "public-key", "sign"}

\* A command may carry a spelling style (how its options are written on the command line; the meaning is the same):
\*   style = [opt, rev, late, dd]   opt in Args!Styles: the spelling of every option (--long V, --long=V, -s V, -sV, -s=V)
\*                                  rev:  the account options in reverse order
\*                                  late: the inner subcommand's flags / options AFTER the positional argument
\*                                  dd:   a "--" before the positional argument
\* and a mutation (a slip of the user that the argument parser must refuse):
\*   mut = [k, at]   "drop": token `at` removed, "dup": token `at` repeated where it stands, "unknown": an undeclared
\*                   option inserted before token `at`, "surplus": a further argument appended,
\*                   "text": the token mut.tok (--help, -h, help, --version, -V) inserted before token `at`,
\*                   "acct_late": the account options of `sign` named in mut.late (a sequence of keys) after the inner
\*                   subcommand instead of before it
\* Commands without these fields are written in style sp (the style of every workload before Args.tla existed).
StyleOf(cmd) == IF "style" \in DOMAIN cmd THEN cmd.style ELSE [opt |-> "sp", rev |-> FALSE, late |-> FALSE, dd |-> FALSE]
InSeq(x, sq) == \E k \in 1..Len(sq) : sq[k] = x
\* the account options whose key is (wantLate) / is not (~wantLate) in the sequence `late`
AcctArgvOf(cmd, late, wantLate) ==
  LET sty == StyleOf(cmd)
      ord == IF sty.rev THEN <<4, 3, 2, 1>> ELSE <<1, 2, 3, 4>>
  IN  Concat([i \in 1..4 |-> LET o == cmd.acct[OptOrder[ord[i]]] IN
                IF o.src = "flag" /\ (InSeq(OptOrder[ord[i]], late) <=> wantLate) THEN RenderOpt(OptOrder[ord[i]], o.v, sty.opt) ELSE <<>>])
AcctArgv(cmd) == AcctArgvOf(cmd, <<>>, FALSE)
EnvOf(cmd) ==
  LET used == {i \in 1..4 : cmd.acct[OptOrder[i]].src = "env"}
  IN  [nm \in {OptNames[OptOrder[i]][2] : i \in used} |->
         cmd.acct[OptOrder[CHOOSE i \in used : OptNames[OptOrder[i]][2] = nm]].v]
\* the name of the input file (in the executor's scratch directory, given to the command as an absolute path)
FileName(cmd) == IF "fname" \in DOMAIN cmd.inp THEN cmd.inp.fname ELSE "in"
InputArg(cmd) == IF cmd.chan \in {"file", "fifo"} THEN <<"@F:" \o FileName(cmd)>> ELSE IF cmd.chan = "stdin" THEN <<"-">>
                 ELSE IF cmd.chan = "devstdin" THEN <<"/dev/stdin">>
                 ELSE IF cmd.chan = "arg" THEN <<cmd.inp.arg>> ELSE <<>>
\* inner options then positional, or the other way round; an optional "--" directly before the positional
Inner(cmd, optsToks) ==
  LET sty == StyleOf(cmd)
      pos == (IF sty.dd THEN <<"--">> ELSE <<>>) \o InputArg(cmd)
  IN  IF sty.late /\ ~sty.dd THEN pos \o optsToks ELSE optsToks \o pos
Argv0(cmd) ==
  LET sty == StyleOf(cmd)
      late == IF "mut" \in DOMAIN cmd /\ cmd.mut.k = "acct_late" THEN cmd.mut.late ELSE <<>>
  IN
  IF cmd.sub \in {"address", "export", "public-key"} THEN <<cmd.sub>> \o AcctArgv(cmd)
  ELSE IF cmd.sub = "sign" THEN
    <<"sign">> \o AcctArgvOf(cmd, late, FALSE) \o <<cmd.what>> \o AcctArgvOf(cmd, late, TRUE)
      \o Inner(cmd, (IF HasFlag(cmd, "signature_only") THEN RenderOpt("signature_only", "", sty.opt) ELSE <<>>)
                    \o (IF HasFlag(cmd, "allow_missing") THEN RenderOpt("allow_missing", "", sty.opt) ELSE <<>>))
  ELSE IF cmd.sub = "hash" THEN
    <<"hash", cmd.what>>
      \o Inner(cmd, (IF cmd.sigtext # "" THEN RenderOpt("signature", cmd.sigtext, sty.opt) ELSE <<>>)
                    \o (IF HasFlag(cmd, "message_hash") THEN RenderOpt("message_hash", "", sty.opt) ELSE <<>>))
  ELSE <<"hex", cmd.what>> \o Inner(cmd, <<>>)       \* hex encode / decode (default input: stdin)
Mutate(a, m) ==
  IF m.k = "drop" THEN SubSeq(a, 1, m.at - 1) \o SubSeq(a, m.at + 1, Len(a))
  ELSE IF m.k = "dup" THEN SubSeq(a, 1, m.at) \o SubSeq(a, m.at, Len(a))
  ELSE IF m.k = "unknown" THEN SubSeq(a, 1, m.at - 1) \o <<"--frobnicate">> \o SubSeq(a, m.at, Len(a))
  ELSE IF m.k = "surplus" THEN a \o <<"extra">>
  ELSE IF m.k = "text" THEN SubSeq(a, 1, m.at - 1) \o <<m.tok>> \o SubSeq(a, m.at, Len(a))     \* --help, -h, help, --version, -V
  ELSE a
Argv(cmd) == IF "mut" \in DOMAIN cmd THEN Mutate(Argv0(cmd), cmd.mut) ELSE Argv0(cmd)

\* ---- pipeline state ---------------------------------------------------------------
InitState(cmd) ==
  [pc |-> "options", cmd |-> cmd, key |-> <<>>, bytes |-> <<>>, tx |-> <<>>, digest |-> <<>>, sig |-> <<>>,
   out |-> <<>>, either |-> FALSE, why |-> ""]
Terminal == {"printed", "failed", "open"}
FailWith(st, why) == [st EXCEPT !.pc = "failed", !.why = why, !.out = <<>>]
OpenWith(st, why) == [st EXCEPT !.pc = "open", !.why = why]
Line(codes) == codes \o <<10>>

\* stage "options": the argument parser - the token machine of Args.tla over the rendered command line and the
\* environment.  What it must refuse: an unusable command line (usage errors of Args!ParseArgv, among them a missing
\* mnemonic and the two account selectors combined, from whichever source).  For a command line the machine accepts,
\* its meaning is the command (MC_Args: rendering and parsing are inverse for every style), so the later stages read cmd.
StepOptions(st) ==
  LET c == st.cmd
      p == ParseArgv(Argv(c), EnvOf(c))
  IN  \* C16: the two account selectors cannot be combined - wherever on the line and from whichever source they come
      IF NeedsAccount(c) /\ c.acct.index.src # "none" /\ c.acct.path.src # "none" THEN FailWith(st, "selectors_combined")
      ELSE IF p.err \in {"mnemonic_required", "selectors_combined"} THEN FailWith(st, p.err)
      \* --help / -h / help / --version: text is printed, status 0; the text is not specified (anything but a crash)
      ELSE IF p.err \in TextRequests THEN OpenWith(st, p.err)
      \* any other unusable line: the design refuses it (no listed property speaks about it: Judge!CliRefusalProps)
      ELSE IF p.err # "" THEN FailWith(st, "usage_" \o p.err)
      \* a slip that happens to leave another well-formed line (a dropped flag, say): that line is another command
      ELSE IF "mut" \in DOMAIN c THEN OpenWith(st, "mutated_line_is_another_command")
      ELSE [st EXCEPT !.pc = IF NeedsAccount(c) THEN "account" ELSE "input"]

\* stage "account": mnemonic -> seed -> path -> key
StepAccount(st) ==
  LET c  == st.cmd
      p  == ParsePhrase(StrToCps(c.acct.mnemonic.v))
      ix == StrToUtf8(c.acct.index.v)
      ixCanon == AllDigit(ix) /\ Len(ix) >= 1 /\ (Len(ix) = 1 \/ ix[1] # 48)
      ixBig   == ixCanon /\ (Len(ix) > 10 \/ ~BnLt(BnFromDec(DecVals(ix)), Two31))
      ixStd   == c.acct.index.src = "none" \/ (ixCanon /\ ~ixBig)
      pc == IF c.acct.path.src = "none" THEN [c |-> "accept", comps |-> <<>>, why |-> ""] ELSE Classify(StrToUtf8(c.acct.path.v))
  IN
  IF p.c = "reject" THEN FailWith(st, "mnemonic_" \o p.why)
  ELSE IF pc.c = "reject" THEN FailWith(st, "path_" \o pc.why)
  \* m/44'/60'/0'/0/i with i >= 2^31 is not a standard path (C14): it would alias a hardened index or select a
  \* derivation no other BIP-32 wallet performs, so the command cannot act on an account
  ELSE IF c.acct.index.src # "none" /\ ixBig THEN FailWith(st, "account_index_ge_2^31")
  ELSE IF ~ixStd THEN OpenWith(st, "account_index_spelling")                \* signs, leading zeros, blanks
  ELSE
  LET comps == IF c.acct.path.src # "none" THEN pc.comps
               ELSE ForIndex(IF c.acct.index.src = "none" THEN <<>> ELSE BnFromDec(DecVals(ix)))
      k == Derive(SeedOf(p.phrase, StrToCps(c.acct.password.v)), comps)
  IN  IF ~k.ok THEN OpenWith(st, "bip32_invalid_key")
      ELSE [st EXCEPT !.pc = IF c.sub = "sign" THEN "input" ELSE "print", !.key = k.k,
                      !.either = p.c = "either" \/ pc.c = "either"]

\* stage "input": the bytes the command works on
InputBytes(c) ==
  IF c.chan = "arg" THEN StrToUtf8(c.inp.arg)
  ELSE IF "hex" \in DOMAIN c.inp THEN HexToBytes(c.inp.hex)
  ELSE <<>>                                     \* documents are used as ASTs (the executor renders them)
StepInput(st) ==
  [st EXCEPT !.pc = "decode", !.bytes = InputBytes(st.cmd)]

\* stage "decode": JSON -> transaction / typed data; `sign raw` argument -> digest; signature option
Hex32(cs) ==     \* the `sign raw` argument: 64 hex digits, optional 0x
  LET body == IF Len(cs) >= 2 /\ cs[1] = 48 /\ cs[2] = 120 THEN SubSeq(cs, 3, Len(cs)) ELSE cs
  IN  IF Len(body) = 64 /\ AllHex(body)
      THEN [c |-> IF \E i \in 1..64 : IsUpperHexCode(body[i]) THEN "either" ELSE "accept", v |-> HexPairs(body)]
      ELSE [c |-> "reject", v |-> <<>>]
StepDecode(st) ==
  LET c == st.cmd IN
  IF c.what = "transaction" THEN
    LET p  == Parse(c.inp.doc)
        sg == IF c.sub = "hash" /\ c.sigtext # "" THEN ParseSig(StrToUtf8(c.sigtext)) ELSE [c |-> "accept", why |-> ""]
        vOpen == p.c \in {"accept", "either"} /\ p.tx.kind = "legacy" /\ ~VFits256(p.tx.chainId)
    IN  IF sg.c = "reject" THEN FailWith(st, "signature_" \o sg.why)
        ELSE IF p.c = "reject" THEN FailWith(st, "transaction_" \o p.why)
        ELSE IF p.c = "open" THEN OpenWith(st, "transaction_open_class")
        ELSE [st EXCEPT !.pc = "guard", !.tx = p.tx, !.either = @ \/ p.c = "either" \/ sg.c = "either" \/ vOpen,
                        !.sig = IF c.sub = "hash" /\ c.sigtext # "" THEN sg.sig ELSE <<>>]
  ELSE IF c.what = "typeddata" THEN
    LET oc == TypedDataOutcome(c.inp.doc) IN
    IF oc.c = "reject" THEN FailWith(st, "typeddata_" \o oc.why)
    ELSE IF oc.c = "open" THEN OpenWith(st, "typeddata_open_class")
    ELSE [st EXCEPT !.pc = "digest", !.either = @ \/ oc.c = "either",
                    !.digest = IF HasFlag(c, "message_hash") THEN oc.msghash ELSE oc.digest]
  ELSE IF c.what = "raw" THEN
    LET h == Hex32(st.bytes) IN
    IF h.c = "reject" THEN FailWith(st, "raw_digest") ELSE [st EXCEPT !.pc = "digest", !.digest = h.v, !.either = @ \/ h.c = "either"]
  ELSE IF c.sub = "hex" /\ c.what = "decode" /\ "rl" \in DOMAIN c.inp THEN
    \* a run-length input (tens of megabytes): only refusal is decided, see HexCodec!HexDecodeClassRL
    IF HexDecodeClassRL(c.inp.rl).c = "reject" THEN FailWith(st, "hex_text") ELSE OpenWith(st, "hex_run_length_input")
  ELSE IF c.sub = "hex" /\ c.what = "decode" THEN
    LET h == HexDecodeClass(st.bytes) IN
    IF h.c = "reject" THEN FailWith(st, "hex_text")
    ELSE IF h.c = "open" THEN OpenWith(st, "hex_open_class")
    ELSE [st EXCEPT !.pc = "print", !.bytes = h.v]
  ELSE [st EXCEPT !.pc = IF c.sub = "hex" THEN "print" ELSE "digest"]

\* stage "guard": chain replay protection (C11).  The only successor of a legacy transaction
\* without chain id, when signing without the override flag, is failure.
NeedsOverride(st) == st.cmd.sub = "sign" /\ st.tx.kind = "legacy" /\ st.tx.chainId = <<>>
StepGuard(st) ==
  IF NeedsOverride(st) /\ ~HasFlag(st.cmd, "allow_missing") THEN FailWith(st, "missing_replay_protection")
  ELSE [st EXCEPT !.pc = "digest"]

\* stage "digest"
StepDigest(st) ==
  LET c == st.cmd IN
  IF c.what = "transaction" THEN
    \* hash transaction --signature S: keccak of the signed payload, computed at print time
    [st EXCEPT !.pc = IF c.sub = "sign" THEN "sign" ELSE "print", !.digest = SigningDigest(st.tx)]
  \* a run-length input pre \o <<b, ..., b>> (rep times; pat one byte, no tail): tens of megabytes, hashed without a TLC sequence
  ELSE IF c.what \in {"message", "data"} /\ "rl" \in DOMAIN c.inp THEN
    LET rl == c.inp.rl
        n  == Len(rl.pre) + rl.rep
    IN  IF Len(rl.pat) # 1 \/ rl.tail # <<>> THEN OpenWith(st, "run_length_shape")
        ELSE [st EXCEPT !.pc = IF c.sub = "sign" THEN "sign" ELSE "print",
                        !.digest = IF c.what = "data" THEN Keccak256Rep(rl.pre, rl.pat[1], rl.rep)
                                   ELSE Keccak256Rep(Eip191Prefix \o DecimalAscii(n) \o rl.pre, rl.pat[1], rl.rep)]
  ELSE IF c.what = "message" THEN [st EXCEPT !.pc = IF c.sub = "sign" THEN "sign" ELSE "print", !.digest = PersonalDigest(st.bytes)]
  ELSE IF c.what = "data" THEN [st EXCEPT !.pc = "print", !.digest = Keccak256(st.bytes)]
  ELSE [st EXCEPT !.pc = IF c.sub = "sign" THEN "sign" ELSE "print"]          \* typeddata, raw: digest already known

\* stage "sign"
StepSign(st) ==
  LET s == Sign(st.key, st.digest) IN
  [st EXCEPT !.pc = "print", !.sig = [r |-> s.r, s |-> s.s, par |-> s.par]]

\* stage "print"
HexOut(b) == <<48, 120>> \o HexLower(b)
StepPrint(st) ==
  LET c == st.cmd
      out ==
        IF c.sub = "address" THEN Line(Eip55(AddressOf(st.key)))
        ELSE IF c.sub = "export" THEN Line(HexOut(st.key))
        ELSE IF c.sub = "public-key" THEN Line(HexOut(Pub65(st.key)))
        ELSE IF c.sub = "sign" THEN
          (IF c.what = "transaction" /\ ~HasFlag(c, "signature_only")
           THEN Line(HexOut(SignedPayload(st.tx, st.sig)))
           ELSE Line(PrintSig(st.sig)))
        ELSE IF c.sub = "hash" THEN
          (IF c.what = "transaction" /\ st.sig # <<>> THEN Line(HexOut(Keccak256(SignedPayload(st.tx, st.sig))))
           ELSE Line(HexOut(st.digest)))
        ELSE IF c.what = "encode" THEN HexEncodeOut(st.bytes)
        ELSE st.bytes                                                        \* hex decode: the raw bytes
  IN  [st EXCEPT !.pc = "printed", !.out = out]

Step(st) ==
  CASE st.pc = "options" -> StepOptions(st)
    [] st.pc = "account" -> StepAccount(st)
    [] st.pc = "input"   -> StepInput(st)
    [] st.pc = "decode"  -> StepDecode(st)
    [] st.pc = "guard"   -> StepGuard(st)
    [] st.pc = "digest"  -> StepDigest(st)
    [] st.pc = "sign"    -> StepSign(st)
    [] st.pc = "print"   -> StepPrint(st)

RECURSIVE RunFrom(_)
RunFrom(st) == IF st.pc \in Terminal THEN st ELSE RunFrom(Step(st))
Run(cmd) == RunFrom(InitState(cmd))
=============================================================================
