------------------------------ MODULE Gen_C03 ------------------------------
(* Workload for C03: BIP-32 derivation (exhaustive depth 1 and 2 over the component set, PRNG walks to depth 10). *)
EXTENDS GenKeys
O1 == 0 + (26)
O2 == O1 + (676)
O3 == O2 + (NWalks)
O4 == O3 + (NRare)
O5 == O4 + NHist
O6 == O5 + NTwinHist
Count == O6 + NRelHist
ItemAt(g) ==
  IF g <= O1 THEN Depth1At(g - 0)
  ELSE IF g <= O2 THEN Depth2At(g - O1)
  ELSE IF g <= O3 THEN WalkAt(g - O2)
  ELSE IF g <= O4 THEN RareAt(g - O3)
  ELSE IF g <= O5 THEN HistAt(g - O4)
  ELSE IF g <= O6 THEN TwinSeedAt(g - O5)
  ELSE RelHistAt(g - O6)
Histories == IF "VERIF_TIER" \in DOMAIN IOEnv /\ IOEnv.VERIF_TIER = "thorough" THEN 300 ELSE 40
VARIABLE n
INSTANCE GenBase
=============================================================================
