----------------------------- MODULE MC_SigText -----------------------------
(* Parse(Print(sig)) = sig, with and without the 0x prefix, for boundary     *)
(* scalars x parity; each malformed class is rejected.                       *)
EXTENDS SigText, TLC

NMinus1 == BnFixed(BnSub(CurveN, <<1>>), 32)
Scalars == {PadLeft(<<1>>, 32), PadLeft(<<2>>, 32), NMinus1, <<128>> \o Zeros(31), Rep(16, 0) \o Rep(16, 171),
            BnFixed(HalfN, 32), BnFixed(BnAdd(HalfN, <<1>>), 32)}
BadScalars == {Zeros(32), BnFixed(CurveN, 32), Rep(32, 255)}

VARIABLES r, s, par
Init == r \in Scalars \cup BadScalars /\ s \in Scalars \cup BadScalars /\ par \in {0, 1}
Next == UNCHANGED <<r, s, par>>
Spec == Init /\ [][Next]_<<r, s, par>>

RoundTrip ==
  LET sig  == [r |-> r, s |-> s, par |-> par]
      text == PrintSig(sig)
      p1   == ParseSig(text)
      p2   == ParseSig(SubSeq(text, 3, Len(text)))
  IN  IF r \in Scalars /\ s \in Scalars
      THEN p1.c = "accept" /\ p1.sig = sig /\ p2.c = "accept" /\ p2.sig = sig /\ Len(text) = 132
      ELSE p1.c = "reject" /\ p1.why = "scalar_range" /\ p2.c = "reject"
Malformed ==
  LET text == PrintSig([r |-> PadLeft(<<1>>, 32), s |-> PadLeft(<<1>>, 32), par |-> par])
  IN  /\ ParseSig(SubSeq(text, 1, 131)).c = "reject"
      /\ ParseSig(text \o <<48>>).c = "reject"
      /\ ParseSig([text EXCEPT ![40] = 103]).c = "reject"
      /\ ParseSig([text EXCEPT ![132] = 48]).c = "reject"          \* v = 0x10 / 0x10
      /\ ParseSig(<<>>).c = "reject"
=============================================================================
