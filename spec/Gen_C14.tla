------------------------------ MODULE Gen_C14 ------------------------------
(* Workload for C14: HD path text (all short strings over the path alphabet, boundary indices, named spellings, for_index). *)
EXTENDS GenKeys
O1 == 0 + (NStrings)
O2 == O1 + (NBoundPaths)
O3 == O2 + (NOpenPaths)
O4 == O3 + (Len(ForIdx))
O5 == O4 + NPrefixExt
O6 == O5 + NPathEveryChar + NForIdxHist
Count == O6 + NCompShapes
ItemAt(g) ==
  IF g <= O1 THEN StringAt(g - 0)
  ELSE IF g <= O2 THEN BoundPathAt(g - O1)
  ELSE IF g <= O3 THEN OpenPathAt(g - O2)
  ELSE IF g <= O4 THEN ForIndexAt(g - O3)
  ELSE IF g <= O5 THEN PrefixExtAt(g - O4)
  ELSE IF g <= O5 + NPathEveryChar THEN PathEveryCharAt(g - O5)
  ELSE IF g <= O6 THEN ForIdxHistAt(g - O5 - NPathEveryChar)
  ELSE CompShapeAt(g - O6)
Histories == IF "VERIF_TIER" \in DOMAIN IOEnv /\ IOEnv.VERIF_TIER = "thorough" THEN 300 ELSE 40
VARIABLE n
INSTANCE GenBase
=============================================================================
