------------------------------ MODULE Gen_C01 ------------------------------
(* Workload for C01: phrase <-> entropy correspondence, acceptance table.    *)
EXTENDS GenMn
O1 == NCounts
O2 == O1 + NFlips
O3 == O2 + NUnknown
O4 == O3 + NWordPos
O5 == O4 + NLastWord
O6 == O5 + NLayouts
O7 == O6 + NOneHot
O8 == O7 + NSweep
O9 == O8 + NPolyWords
Count == O9 + NExtWords
ItemAt(g) ==
  IF g <= O1 THEN CountsAt(g)
  ELSE IF g <= O2 THEN FlipsAt(g - O1)
  ELSE IF g <= O3 THEN UnknownAt(g - O2)
  ELSE IF g <= O4 THEN WordPosAt(g - O3)
  ELSE IF g <= O5 THEN LastWordAt(g - O4)
  ELSE IF g <= O6 THEN LayoutAt(g - O5)
  ELSE IF g <= O7 THEN OneHotAt(g - O6)
  ELSE IF g <= O8 THEN SweepAt(g - O7)
  ELSE IF g <= O9 THEN PolyWordAt(g - O8)
  ELSE ExtWordAt(g - O9)
Histories == IF "VERIF_TIER" \in DOMAIN IOEnv /\ IOEnv.VERIF_TIER = "thorough" THEN 300 ELSE 40
VARIABLE n
INSTANCE GenBase
=============================================================================
