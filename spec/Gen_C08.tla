------------------------------ MODULE Gen_C08 ------------------------------
(* Workload for C08: reference graphs, atoms x values x positions, PRNG docs. *)
EXTENDS GenTd
O1 == NGraphs
O2 == O1 + NAtoms
O3 == O2 + NRandDocs
O4 == O3 + Len(Memberless)
Count == O4 + NNameOrder
ItemAt(g) ==
  IF g <= O1 THEN GraphAt(g)
  ELSE IF g <= O2 THEN AtomAt(g - O1)
  ELSE IF g <= O3 THEN RandDocAt(g - O2)
  ELSE IF g <= O4 THEN MemberlessAt(g - O3)
  ELSE NameOrderAt(g - O4)
Histories == IF "VERIF_TIER" \in DOMAIN IOEnv /\ IOEnv.VERIF_TIER = "thorough" THEN 300 ELSE 40
VARIABLE n
INSTANCE GenBase
=============================================================================
