------------------------------ MODULE Gen_C08 ------------------------------
(* Workload for C08: reference graphs, atoms x values x positions, PRNG docs. *)
EXTENDS GenTd
O1 == NGraphs
O2 == O1 + NAtoms
Count == O2 + NRandDocs
ItemAt(g) ==
  IF g <= O1 THEN GraphAt(g)
  ELSE IF g <= O2 THEN AtomAt(g - O1)
  ELSE RandDocAt(g - O2)
VARIABLE n
INSTANCE GenBase
=============================================================================
