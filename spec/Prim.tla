------------------------------- MODULE Prim -------------------------------
(***************************************************************************)
(* Uninterpreted primitives: everything hdwallet's DEPENDENCIES implement. *)
(* The bodies below are never evaluated; TLC replaces each operator by the *)
(* Java method of the same name in overrides/HdwPrims.java (JDK digests,   *)
(* BigInteger curve arithmetic, java.text.Normalizer, own Keccak-f).  If   *)
(* the overrides are not loaded, evaluation fails loudly (CHOOSE over the  *)
(* empty set) instead of silently yielding a value.                        *)
(*                                                                         *)
(* Byte strings are sequences over 0..255; big integers are big-endian     *)
(* byte strings; code-point strings are sequences over 0..1114111.         *)
(***************************************************************************)
LOCAL INSTANCE Naturals
LOCAL INSTANCE Sequences

LOCAL Missing == CHOOSE x \in {} : TRUE

\* representation converters between TLA+ strings and sequences
StrToUtf8(s) == Missing          \* "aé"  |-> <<97, 195, 169>>
Utf8ToStr(b) == Missing          \* inverse on valid UTF-8
StrToCps(s)  == Missing          \* "aé"  |-> <<97, 233>>
CpsToStr(c)  == Missing

\* hashes and MACs
Sha256(b)          == Missing    \* 32 bytes
Keccak256(b)       == Missing    \* 32 bytes, original Keccak padding
\* Keccak256Rep(prefix, b, n) = Keccak256(prefix \o <<b, ..., b>> (n times)): native, so that messages of 10^7 bytes need no
\* TLC sequence; PrimTest compares it with the definition
Keccak256Rep(prefix, b, n) == Missing
HmacSha512(k, d)   == Missing    \* 64 bytes
Pbkdf2HmacSha512(pw, salt, rounds, dkLen) == Missing

\* Unicode normalisation form KD on code-point sequences
Nfkd(cps) == Missing
NormForm(form, cps) == Missing     \* Unicode normalisation form "NFD" | "NFC" | "NFKD" | "NFKC" of a code point sequence
CpClass(cp) == Missing             \* "unassigned" | "surrogate" | "private" | "mark" | "other" (general category class)

\* modular arithmetic on big-endian byte strings, result padded to Len(m)
BnMulMod(a, b, m) == Missing
BnInvMod(a, m)    == Missing

\* secp256k1
EcBaseMul(k)            == Missing   \* k*G as X \o Y (64 bytes); <<>> when k = 0 (mod n)
EcRecover(z, r, s, par) == Missing   \* public key X \o Y with R.x = r, or <<>>
EcVerify(z, r, s, pub)  == Missing   \* BOOLEAN
Rfc6979K(d, z)          == Missing   \* RFC 6979 3.2 nonce, HMAC-SHA256, no extra data
=============================================================================
