SPECIFICATION Spec
CONSTANT N = 4
INVARIANT PrintedIsGrantedMatch
INVARIANT JudgeSound
INVARIANT ObsTranscriptionAgrees
INVARIANT NoPhraseAfterMainRefusal
INVARIANT AtMostOnePrint
PROPERTY ExitsWhenMessagePending
VIEW ViewNoHist
CHECK_DEADLOCK FALSE
