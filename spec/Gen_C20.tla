------------------------------ MODULE Gen_C20 ------------------------------
(* Workload for C20: EIP712Domain member sequences as complete documents.    *)
EXTENDS GenTd
O1 == NAllSeqs
O2 == O1 + 326
O3 == O2 + 155
O4 == O3 + NLongSeqs
O5 == O4 + 1
O6 == O5 + NNearMiss
O7 == O6 + NPlusExtra
Count == O7 + NSepMembers
ItemAt(g) ==
  IF g <= O1 THEN AllSeqAt(g)
  ELSE IF g <= O2 THEN OrderingAt(g - O1)
  ELSE IF g <= O3 THEN OneWrongAt(g - O2)
  ELSE IF g <= O4 THEN LongSeqAt(g - O3)
  ELSE IF g <= O5 THEN NoDomainTypeDoc
  ELSE IF g <= O6 THEN NearMissAt(g - O5)
  ELSE IF g <= O7 THEN PlusExtraAt(g - O6)
  ELSE SepMemberAt(g - O7)
Histories == IF "VERIF_TIER" \in DOMAIN IOEnv /\ IOEnv.VERIF_TIER = "thorough" THEN 300 ELSE 40
VARIABLE n
INSTANCE GenBase
=============================================================================
