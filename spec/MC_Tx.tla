------------------------------- MODULE MC_Tx -------------------------------
(***************************************************************************)
(* Model-level facts about Tx.tla over a small but structurally complete   *)
(* universe of transactions (all three kinds x chain id {none, 0, 1, 255}  *)
(* x nonce {0, 1, 128} x recipient {none, address} x data {empty, 00, 80}  *)
(* x access list {empty, entry without slots, entry with one slot}):       *)
(*  Distinct     two distinct transactions never share a signing payload   *)
(*               (so a signature for one chain id is not one for another), *)
(*               nor a signed payload under the same signature             *)
(*  Decodes      the strict decoder recovers exactly the signed items      *)
(*  TailOK       the unsigned legacy payload ends in (c, 0, 0) iff a chain *)
(*               id is present; typed payloads start with their type byte  *)
(*               and chain id; v = 27/28 without chain id, 35 + 2c + par   *)
(*               with it                                                   *)
(*  Dispatch     the kind is 1559 iff a fee-market key is present, else    *)
(*               2930 iff accessList is present, else legacy - over every  *)
(*               subset of the ten JSON keys                               *)
(***************************************************************************)
EXTENDS Tx, FiniteSets, TLC

Addr == [i \in 1..20 |-> 16 + i]
Slot == [i \in 1..32 |-> 200]
Chains == {<<>>, <<<<>>>>, <<<<1>>>>, <<<<255>>>>}            \* option: <<>> none, <<c>> some
Als == {<<>>, <<[addr |-> Addr, slots |-> <<>>]>>, <<[addr |-> Addr, slots |-> <<Slot>>]>>}
Mk(kind, chain, nonce, to, data, al) ==
  [kind |-> kind, chainId |-> chain, nonce |-> nonce, gasPrice |-> <<2>>, maxPrio |-> <<3>>, maxFee |-> <<4>>, gas |-> <<82, 8>>,
   to |-> to, value |-> <<>>, data |-> data, al |-> al]
Universe ==
  {Mk(kind, chain, nonce, to, data, al) :
     kind \in {"legacy", "2930", "1559"}, chain \in Chains, nonce \in {<<>>, <<1>>, <<128>>}, to \in {<<>>, <<Addr>>},
     data \in {<<>>, <<0>>, <<128>>}, al \in Als}
\* typed transactions need a chain id; legacy ones have no access list
Valid(tx) == (tx.kind # "legacy" => tx.chainId # <<>>) /\ (tx.kind = "legacy" => tx.al = <<>>)
Txs == {tx \in Universe : Valid(tx)}
Sig == [r |-> PadLeft(<<17>>, 32), s |-> <<0>> \o Rep(31, 34), par |-> 1]

VARIABLE tx
Init == tx \in Txs
Next == UNCHANGED tx
Spec == Init /\ [][Next]_tx

Decodes == DecodesTo(SignedPayload(tx, Sig), tx, Sig)
TailOK ==
  LET u == UnsignedItems(tx) IN
  /\ (tx.kind = "legacy" /\ tx.chainId # <<>> => Len(u) = 9 /\ u[7] = RlpU(tx.chainId[1]) /\ u[8] = RlpB(<<>>) /\ u[9] = RlpB(<<>>))
  /\ (tx.kind = "legacy" /\ tx.chainId = <<>> => Len(u) = 6)
  /\ (tx.kind = "2930" => SigningPayload(tx)[1] = 1 /\ u[1] = RlpU(tx.chainId[1]) /\ Len(u) = 8)
  /\ (tx.kind = "1559" => SigningPayload(tx)[1] = 2 /\ u[1] = RlpU(tx.chainId[1]) /\ Len(u) = 9)
  /\ (tx.kind = "legacy" => SigningPayload(tx)[1] >= 192)
  /\ VOf(0, <<>>) = <<27>> /\ VOf(1, <<>>) = <<28>>
  /\ (tx.chainId # <<>> => BnToNat(VOf(Sig.par, tx.chainId)) = 35 + 2 * BnToNat(tx.chainId[1]) + Sig.par)
  \* the signature tail: canonical integers (leading zero byte of s stripped)
  /\ LET s == SignedItems(tx, Sig) IN s[Len(s)] = RlpB(Rep(31, 34)) /\ s[Len(s) - 1] = RlpB(<<17>>)

\* constant-level: injectivity and the dispatch table
ASSUME Cardinality({SigningPayload(t) : t \in Txs}) = Cardinality(Txs)
ASSUME Cardinality({SignedPayload(t, Sig) : t \in Txs}) = Cardinality(Txs)
Keys == {"chainId", "nonce", "gasPrice", "maxPriorityFeePerGas", "maxFeePerGas", "gas", "to", "value", "data", "accessList"}
ASSUME \A ks \in SUBSET Keys :
         KindOfKeys(ks) = IF "maxPriorityFeePerGas" \in ks \/ "maxFeePerGas" \in ks THEN "1559"
                          ELSE IF "accessList" \in ks THEN "2930" ELSE "legacy"
ASSUME VFits256(<<BnSub(BnPow2(255), <<19>>)>>) /\ ~VFits256(<<BnSub(BnPow2(255), <<18>>)>>)
ASSUME PrintT(<<"MC_Tx transactions", Cardinality(Txs)>>)
=============================================================================
