SPECIFICATION Spec
CONSTANT Variant = "early_exit"
INVARIANT ClosureCorrect
INVARIANT PrimaryNeverRepeated
INVARIANT Bounded
PROPERTY Terminates
CHECK_DEADLOCK FALSE
