----------------------------- MODULE MC_Prefix -----------------------------
(* The vanity prefix grammar over every string up to length 4 over             *)
(* {0 9 a f A F g x}: the value is case-insensitive, odd and even digit counts *)
(* are accepted, a non-hex digit anywhere is refused; HasPrefix compares the   *)
(* HIGH nibble first.                                                          *)
EXTENDS NewCmd, TLC
Alphabet == {48, 57, 97, 102, 65, 70, 103, 120}
VARIABLE s
Init == s = <<>>
Next == Len(s) < 4 /\ \E c \in Alphabet : s' = Append(s, c)
Spec == Init /\ [][Next]_s
P(x) == ParsePrefix(<<48, 120>> \o x)
Lower(x) == [i \in 1..Len(x) |-> IF x[i] >= 65 /\ x[i] <= 70 THEN x[i] + 32 ELSE x[i]]
Grammar ==
  /\ (s = <<>> => P(s).c = "open")
  /\ (s # <<>> /\ AllHex(s) => P(s).c = "accept" /\ Len(P(s).nibbles) = Len(s) /\ P(s).nibbles = P(Lower(s)).nibbles
                               /\ \A i \in 1..Len(s) : P(s).nibbles[i] \in 0..15)
  /\ (s # <<>> /\ ~AllHex(s) => P(s).c = "reject")
  /\ ParsePrefix(s).c \in {"open", "accept", "reject"}
ASSUME HasPrefix(<<171, 205>> \o Zeros(18), <<10>>) /\ ~HasPrefix(<<171, 205>> \o Zeros(18), <<11>>)
ASSUME HasPrefix(<<171, 205>> \o Zeros(18), <<10, 11, 12>>) /\ ~HasPrefix(<<171, 205>> \o Zeros(18), <<10, 11, 13>>)
ASSUME HasPrefix(Zeros(20), <<>>) /\ ParsePrefix(<<48, 120, 65>>).nibbles = <<10>> /\ ParsePrefix(<<49, 97>>).c = "open"
=============================================================================
