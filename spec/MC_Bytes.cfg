SPECIFICATION Spec
INVARIANT Arith
INVARIANT AddMod
CHECK_DEADLOCK FALSE
