------------------------------ MODULE Gen_C09 ------------------------------
(***************************************************************************)
(* Workload for C09: values at and beyond the range of their declared      *)
(* type, in every numeric spelling, at every nesting position.             *)
(***************************************************************************)
EXTENDS GenTd

\* a conforming filler value of a type text (for the sibling elements)
\* position p in 0..4
Wrap(p, ty, val, good) ==
  IF p = 0 THEN Doc(<<NameOnlyDomainType, <<"P", TypeDef(<<Member("f", ty)>>)>> >>, "P", NameOnlyDomain,
                    NObj(<< <<"f", val>> >>))
  ELSE IF p = 1 THEN Doc(<<NameOnlyDomainType, <<"P", TypeDef(<<Member("inner", "Q")>>)>>, <<"Q", TypeDef(<<Member("f", ty)>>)>> >>,
                         "P", NameOnlyDomain, NObj(<< <<"inner", NObj(<< <<"f", val>> >>)>> >>))
  ELSE IF p = 2 THEN Doc(<<NameOnlyDomainType, <<"P", TypeDef(<<Member("f", ty \o "[]")>>)>> >>, "P", NameOnlyDomain,
                         NObj(<< <<"f", NArr(<<good, val>>)>> >>))
  ELSE IF p = 3 THEN Doc(<<NameOnlyDomainType, <<"P", TypeDef(<<Member("qs", "Q[]")>>)>>, <<"Q", TypeDef(<<Member("f", ty)>>)>> >>,
                         "P", NameOnlyDomain, NObj(<< <<"qs", NArr(<<NObj(<< <<"f", good>> >>), NObj(<< <<"f", val>> >>)>>)>> >>))
  ELSE Doc(<<NameOnlyDomainType, <<"P", TypeDef(<<Member("f", ty \o "[2][]")>>)>> >>, "P", NameOnlyDomain,
           NObj(<< <<"f", NArr(<<NArr(<<good, val>>)>>)>> >>))

\* ---- integers -----------------------------------------------------------------
Widths == IF Thorough THEN [i \in 1..32 |-> 8 * i] ELSE <<8, 16, 64, 128, 248, 256>>
\* value b in 1..8 for width n: <<neg, magnitude>>
BoundVal(n, b) ==
  IF b = 1 THEN <<TRUE, BnAdd(BnPow2(n - 1), <<1>>)>>
  ELSE IF b = 2 THEN <<TRUE, BnPow2(n - 1)>>
  ELSE IF b = 3 THEN <<TRUE, <<1>>>>
  ELSE IF b = 4 THEN <<FALSE, <<>>>>
  ELSE IF b = 5 THEN <<FALSE, BnSub(BnPow2(n - 1), <<1>>)>>
  ELSE IF b = 6 THEN <<FALSE, BnPow2(n - 1)>>
  ELSE IF b = 7 THEN <<FALSE, BnSub(BnPow2(n), <<1>>)>>
  ELSE <<FALSE, BnPow2(n)>>
DecText(v) == (IF v[1] THEN "-" ELSE "") \o Utf8ToStr(DecCodes(BnToDec(v[2])))
HexText(v) == (IF v[1] THEN "-" ELSE "") \o NHexQty(v[2]).v
\* spelling s in 1..5
Spell(v, s) ==
  IF s = 1 THEN NStr(DecText(v))
  ELSE IF s = 2 THEN NStr(HexText(v))
  ELSE IF s = 3 THEN NNum(DecText(v))                     \* JSON integer (exact for any size: open above 2^53)
  ELSE IF s = 4 THEN NNum(DecText(v) \o ".0")
  ELSE NNum(DecText(v) \o "e0")
NInts == Len(Widths) * 2 * 8 * 5 * 5
IntAt(j) ==
  LET p  == (j - 1) % 5
      s  == 1 + (((j - 1) \div 5) % 5)
      b  == 1 + (((j - 1) \div 25) % 8)
      sg == ((j - 1) \div 200) % 2
      n  == Widths[1 + ((j - 1) \div 400)]
      ty == (IF sg = 0 THEN "uint" ELSE "int") \o ToString(n)
  IN  TItem("ints", Wrap(p, ty, Spell(BoundVal(n, b), s), NNum("1")))

\* decimal neighbours of short numbers (see Gen_C13): JSON literals m * 10^k +- d as uint256 / int256 values, either sign.
\* The literal is encoded at its exact value or refused, never at the short neighbour a binary64 reader lands on.
NbMants == <<<<1>>, <<1, 3, 3, 7>>, <<9>>, <<2, 5>>>>
NbKs9 == IF Thorough THEN [i \in 1..58 |-> 15 + i] ELSE <<16, 17, 18, 19, 20, 21, 22, 24, 27, 30, 38, 45, 60, 73>>
NbDs9 == <<1, 7, 1000>>
NNeighbours9 == Len(NbKs9) * Len(NbMants) * Len(NbDs9) * 2
Neighbour9At(j) ==
  LET q   == j - 1
      k   == NbKs9[1 + (q % Len(NbKs9))]
      m   == NbMants[1 + ((q \div Len(NbKs9)) % Len(NbMants))]
      d   == NbDs9[1 + ((q \div (Len(NbKs9) * Len(NbMants))) % Len(NbDs9))]
      up  == (q \div (Len(NbKs9) * Len(NbMants) * Len(NbDs9))) = 0
      rnd == BnFromDec(m \o Zeros(k - Len(m) + 1))
      mag == IF up THEN BnAdd(rnd, BnFromNat(d)) ELSE BnSub(rnd, BnFromNat(d))
      neg == j % 4 = 3
      v   == <<neg, mag>>
  IN  TItem("decimal_neighbours", Wrap(j % 5, IF neg THEN "int256" ELSE IF j % 2 = 0 THEN "uint256" ELSE "int256",
                                       Spell(v, 3 + (j % 3)), NNum("1")))

\* ---- bytesN ---------------------------------------------------------------------
NBytesN == 32 * 4 * 2
BytesNAt(j) ==
  LET n   == 1 + ((j - 1) % 32)
      d   == ((j - 1) \div 32) % 4
      len == IF d = 0 THEN n - 1 ELSE IF d = 1 THEN n ELSE IF d = 2 THEN n + 1 ELSE 33
      p   == IF (j - 1) \div 128 = 0 THEN 0 ELSE 2
  IN  TItem("bytesn", Wrap(p, "bytes" \o ToString(n), NHexBytes(Rep(len, 17 + n)), NHexBytes(Zeros(n))))

\* ---- fixed-size arrays -----------------------------------------------------------
NFixed == 3 * 3 * 3
FixedAt(j) ==
  LET k   == 1 + ((j - 1) % 3)
      cnt == k - 1 + (((j - 1) \div 3) % 3)
      m   == (j - 1) \div 9               \* 0: T[k]   1: T[k][] (inner dimension)   2: T[][k] with right outer count
      arr(c) == NArr([i \in 1..c |-> NNum(ToString(i))])
  IN  TItem("fixed",
        IF m = 0 THEN Doc(<<NameOnlyDomainType, <<"P", TypeDef(<<Member("f", "uint8[" \o ToString(k) \o "]")>>)>> >>, "P",
                          NameOnlyDomain, NObj(<< <<"f", arr(cnt)>> >>))
        ELSE IF m = 1 THEN Doc(<<NameOnlyDomainType, <<"P", TypeDef(<<Member("f", "uint8[" \o ToString(k) \o "][]")>>)>> >>, "P",
                               NameOnlyDomain, NObj(<< <<"f", NArr(<<arr(k), arr(cnt)>>)>> >>))
        ELSE Doc(<<NameOnlyDomainType, <<"P", TypeDef(<<Member("f", "uint8[][" \o ToString(k) \o "]")>>)>> >>, "P",
                 NameOnlyDomain, NObj(<< <<"f", NArr([i \in 1..cnt |-> arr(i)])>> >>)))

\* ---- members missing / undeclared at each nesting level; undefined types -----------
\* level l in 0..2; mode: 0 conforming, 1 missing member, 2 undeclared member
Nest(l, mode) ==
  LET leaf(at) == IF at # l THEN << <<"a", NNum("1")>>, <<"b", NStr("x")>> >>
                  ELSE IF mode = 1 THEN << <<"a", NNum("1")>> >>
                  ELSE IF mode = 2 THEN << <<"a", NNum("1")>>, <<"b", NStr("x")>>, <<"c", NNum("2")>> >>
                  ELSE << <<"a", NNum("1")>>, <<"b", NStr("x")>> >>
  IN  Doc(<<NameOnlyDomainType,
            <<"P", TypeDef(<<Member("a", "uint8"), Member("b", "string"), Member("q", "Q")>>)>>,
            <<"Q", TypeDef(<<Member("a", "uint8"), Member("b", "string"), Member("rs", "R[]")>>)>>,
            <<"R", TypeDef(<<Member("a", "uint8"), Member("b", "string")>>)>> >>, "P", NameOnlyDomain,
          NObj(leaf(0) \o << <<"q", NObj(leaf(1) \o << <<"rs", NArr(<<NObj(leaf(2))>>)>> >>)>> >>))
\* mode 3..: an undeclared member whose VALUE is null / false / 0 / "" / [] / {} (nothing to encode, still undeclared)
ExtraVals == <<NNull, NBool(FALSE), NNum("0"), NStr(""), NArr(<<>>), NObj(<<>>)>>
NestX(l, x) ==
  LET leaf(at) == IF at # l THEN << <<"a", NNum("1")>>, <<"b", NStr("x")>> >>
                  ELSE << <<"a", NNum("1")>>, <<"b", NStr("x")>>, <<"zz", ExtraVals[x]>> >>
  IN  Doc(<<NameOnlyDomainType,
            <<"P", TypeDef(<<Member("a", "uint8"), Member("b", "string"), Member("q", "Q")>>)>>,
            <<"Q", TypeDef(<<Member("a", "uint8"), Member("b", "string"), Member("rs", "R[]")>>)>>,
            <<"R", TypeDef(<<Member("a", "uint8"), Member("b", "string")>>)>> >>, "P", NameOnlyDomain,
          NObj(leaf(0) \o << <<"q", NObj(leaf(1) \o << <<"rs", NArr(<<NObj(leaf(2))>>)>> >>)>> >>))
\* an undeclared null member in the domain object; a declared member given as null
DomainExtra == Doc(<<NameOnlyDomainType, <<"P", TypeDef(<<Member("a", "uint8")>>)>> >>, "P",
                   NObj(<< <<"name", NStr("hdwallet verif")>>, <<"salt", NNull>> >>), NObj(<< <<"a", NNum("1")>> >>))
DeclaredNull == Doc(<<NameOnlyDomainType, <<"P", TypeDef(<<Member("a", "uint8"), Member("s", "string")>>)>> >>, "P", NameOnlyDomain,
                    NObj(<< <<"a", NNum("1")>>, <<"s", NNull>> >>))
NNest == 9 + 3 * Len(ExtraVals) + 2
NestAt(j) ==
  IF j <= 9 THEN TItem("members", Nest((j - 1) % 3, (j - 1) \div 3))
  ELSE IF j <= 9 + 3 * Len(ExtraVals) THEN TItem("members_extra", NestX((j - 10) % 3, 1 + ((j - 10) \div 3)))
  ELSE TItem("members_extra", IF j = NNest THEN DeclaredNull ELSE DomainExtra)
UndefDocs == <<
  \* undefined struct referenced directly by a value, through an array with / without elements, as primary type
  Doc(<<NameOnlyDomainType, <<"P", TypeDef(<<Member("f", "Ghost")>>)>> >>, "P", NameOnlyDomain, NObj(<< <<"f", NObj(<<>>)>> >>)),
  Doc(<<NameOnlyDomainType, <<"P", TypeDef(<<Member("f", "Ghost[]")>>)>> >>, "P", NameOnlyDomain, NObj(<< <<"f", NArr(<<NObj(<<>>)>>)>> >>)),
  Doc(<<NameOnlyDomainType, <<"P", TypeDef(<<Member("f", "Ghost[]")>>)>> >>, "P", NameOnlyDomain, NObj(<< <<"f", NArr(<<>>)>> >>)),
  Doc(<<NameOnlyDomainType, <<"P", TypeDef(<<Member("f", "uint8")>>)>> >>, "Ghost", NameOnlyDomain, NObj(<< <<"f", NNum("1")>> >>)),
  Doc(<<NameOnlyDomainType, <<"P", TypeDef(<<Member("q", "Q[]")>>)>>, <<"Q", TypeDef(<<Member("g", "Ghost[]")>>)>> >>, "P",
      NameOnlyDomain, NObj(<< <<"q", NArr(<<>>)>> >>))
>>
UndefAt(j) == TItem("undefined", UndefDocs[j])

\* ---- type kinds x JSON kinds ------------------------------------------------------------
KindTexts == <<"bool", "address", "string", "bytes", "bytes4", "uint8", "int8", "Q", "uint8[]", "Q[]">>
JsonVals == <<NNull, NBool(TRUE), NNum("1"), NStr("abc"), NStr("1"), NArr(<<>>), NObj(<<>>), NStr("0x01020304"),
              NStr("0x00000000000000000000000000000000000000ff"), NNum("1.5"), NStr(""),
              NNum("1.0000000000000001"), NNum("1e-400")>>
NMatrix == Len(KindTexts) * Len(JsonVals)
MatrixAt(j) ==
  LET ty == KindTexts[1 + ((j - 1) % Len(KindTexts))]
      v  == JsonVals[1 + ((j - 1) \div Len(KindTexts))]
  IN  TItem("matrix", Doc(<<NameOnlyDomainType, <<"P", TypeDef(<<Member("f", ty)>>)>>, <<"Q", TypeDef(<<>>)>> >>, "P",
                          NameOnlyDomain, NObj(<< <<"f", v>> >>)))

\* ---- member types whose width / size ALIASES a valid one under truncation to 8 / 16 / 32 / 64 bits ------------------
\* (uint(8 + 2^k), int(256 + 2^k), bytes(32 + 2^k), T[(1 + 2^k)] with one element): none of them is the aliased type
AliasTypes == <<
  <<"uint264", NNum("1")>>, <<"uint65544", NNum("1")>>, <<"uint4294967304", NNum("1")>>, <<"uint18446744073709551624", NNum("1")>>,
  <<"int512", NNum("-1")>>, <<"int65792", NNum("-1")>>, <<"int4294967552", NNum("-1")>>, <<"int18446744073709551872", NNum("-1")>>,
  <<"uint4294967552", NStr("0xffffffffffffffffffffffffffffffffffffffffffffffffffffffffffffffff")>>,
  <<"bytes288", NHexBytes(Rep(32, 7))>>, <<"bytes65568", NHexBytes(Rep(32, 7))>>, <<"bytes4294967328", NHexBytes(Rep(32, 7))>>,
  <<"bytes18446744073709551648", NHexBytes(Rep(32, 7))>>, <<"bytes4294967297", NHexBytes(<<7>>)>>,
  <<"uint8[257]", NArr(<<NNum("1")>>)>>, <<"uint8[65537]", NArr(<<NNum("1")>>)>>, <<"uint8[4294967297]", NArr(<<NNum("1")>>)>>,
  <<"uint8[18446744073709551617]", NArr(<<NNum("1")>>)>>, <<"uint8[4294967296]", NArr(<<>>)>>, <<"uint8[18446744073709551616]", NArr(<<>>)>>,
  <<"uint8[256]", NArr(<<>>)>>, <<"uint8[65536]", NArr(<<>>)>> >>
NAlias == 2 * Len(AliasTypes)
AliasAt(j) ==
  LET a == AliasTypes[1 + ((j - 1) % Len(AliasTypes))]
  IN  TItem("aliased_types", Wrap(IF j <= Len(AliasTypes) THEN 0 ELSE 1, a[1], a[2], a[2]))

\* ---- struct types that declare a member name twice x objects with missing / surplus members ------------------
\* (counting members instead of naming them lets a surplus member balance a repeated declaration)
DupTypes == <<
  <<Member("amount", "uint256"), Member("amount", "uint256")>>,
  <<Member("amount", "uint256"), Member("to", "address"), Member("amount", "uint256")>>,
  <<Member("amount", "uint256"), Member("amount", "string")>>,
  <<Member("a", "uint8"), Member("a", "uint8"), Member("a", "uint8")>>,
  <<Member("a", "uint8"), Member("b", "uint8"), Member("a", "uint8"), Member("b", "uint8")>> >>
DupObjs == <<
  << <<"amount", NNum("1")>> >>, << <<"amount", NNum("1")>>, <<"recipient", NHexBytes(Rep(20, 9))>> >>,
  << <<"amount", NNum("1")>>, <<"to", NHexBytes(Rep(20, 9))>> >>, << <<"amount", NNum("1")>>, <<"to", NHexBytes(Rep(20, 9))>>, <<"memo", NStr("x")>> >>,
  << <<"a", NNum("1")>> >>, << <<"a", NNum("1")>>, <<"x", NNum("2")>> >>, << <<"a", NNum("1")>>, <<"x", NNum("2")>>, <<"y", NNum("3")>> >>,
  << <<"a", NNum("1")>>, <<"b", NNum("2")>> >>, << <<"a", NNum("1")>>, <<"b", NNum("2")>>, <<"c", NNum("3")>>, <<"d", NNum("4")>> >>,
  << <<"a", NNum("1")>>, <<"c", NNum("3")>>, <<"d", NNum("4")>>, <<"e", NNum("5")>> >>, <<>> >>
NDup == Len(DupTypes) * Len(DupObjs) * 2
DupAt(j) ==
  LET t == DupTypes[1 + ((j - 1) % Len(DupTypes))]
      o == NObj(DupObjs[1 + (((j - 1) \div Len(DupTypes)) % Len(DupObjs))])
  IN  TItem("duplicate_member_names",
            IF j <= Len(DupTypes) * Len(DupObjs)
            THEN Doc(<<NameOnlyDomainType, <<"P", TypeDef(t)>> >>, "P", NameOnlyDomain, o)
            ELSE Doc(<<NameOnlyDomainType, <<"P", TypeDef(<<Member("qs", "Q[]")>>)>>, <<"Q", TypeDef(t)>> >>, "P", NameOnlyDomain,
                     NObj(<< <<"qs", NArr(<<o>>)>> >>)))

O1 == NInts
O2 == O1 + NBytesN
O3 == O2 + NFixed
O4 == O3 + NNest
O5 == O4 + Len(UndefDocs)
O6 == O5 + NMatrix
O7 == O6 + NAlias
O8 == O7 + NDup
Count == O8 + NNeighbours9
ItemAt(g) ==
  IF g <= O1 THEN IntAt(g)
  ELSE IF g <= O2 THEN BytesNAt(g - O1)
  ELSE IF g <= O3 THEN FixedAt(g - O2)
  ELSE IF g <= O4 THEN NestAt(g - O3)
  ELSE IF g <= O5 THEN UndefAt(g - O4)
  ELSE IF g <= O6 THEN MatrixAt(g - O5)
  ELSE IF g <= O7 THEN AliasAt(g - O6)
  ELSE IF g <= O8 THEN DupAt(g - O7)
  ELSE Neighbour9At(g - O8)
Histories == IF "VERIF_TIER" \in DOMAIN IOEnv /\ IOEnv.VERIF_TIER = "thorough" THEN 300 ELSE 40
VARIABLE n
INSTANCE GenBase
=============================================================================
