------------------------------ MODULE Gen_C02 ------------------------------
(***************************************************************************)
(* Workload for C02: seeds of valid phrases of all five lengths, in        *)
(* canonical and non-canonical layout, under passphrases drawn from the    *)
(* normalisation classes (NFKD-equivalent spellings are generated side by  *)
(* side).  Code points are restricted to characters assigned before        *)
(* Unicode 6 (normalisation of assigned characters is frozen, so JDK 17's  *)
(* tables and the crate's agree).                                          *)
(***************************************************************************)
EXTENDS GenMn, Uni
Passes == <<
  <<>>,                                        \* empty
  <<84, 82, 69, 90, 79, 82>>,                  \* TREZOR
  <<112, 97, 115, 115, 32, 119, 111, 114, 100>>, \* "pass word" (inner space kept)
  <<112, 228, 115, 115>>,                      \* p a-umlaut s s   (precomposed)
  <<112, 97, 776, 115, 115>>,                  \* p a + combining diaeresis s s
  <<197>>, <<8491>>, <<65, 778>>,              \* A-ring, ANGSTROM SIGN, A + ring
  <<241>>, <<110, 771>>,                       \* n-tilde
  <<65313, 65314, 65315, 65297, 65298>>, <<65, 66, 67, 49, 50>>,   \* full-width ABC12 / ASCII
  <<64257>>, <<102, 105>>,                     \* fi ligature / "fi"
  <<178>>, <<50>>,                             \* superscript two / "2"
  <<54620>>, <<4370, 4449, 4523>>,             \* Hangul syllable / jamo
  <<119964>>, <<65>>,                          \* MATHEMATICAL SCRIPT CAPITAL A / "A"
  <<128512>>,                                  \* emoji (unchanged by NFKD)
  <<8486>>, <<937>>,                           \* OHM SIGN / GREEK OMEGA
  <<7835>>, <<383, 775>>,                      \* long s with dot above (NFKD -> s + dot)
  <<97, 769, 807>>, <<97, 807, 769>>,          \* combining marks in two orders (canonical reordering)
  <<84, 82, 69, 90, 79, 82, 32>>, <<84, 82, 69, 90, 79, 82, 10>>, <<32>>, <<120, 12288>>, <<32, 108, 101, 97, 100>>,   \* whitespace is significant:
  <<9, 120, 9>>, <<120, 13, 10>>, <<0>>, <<120, 0, 121>>                                                   \* trailing/leading blanks, NUL
>>
\* ---- the normalisation sweep --------------------------------------------------------------
\* Every code point that normalisation does something with (about 19 000) and every pair in which canonical
\* reordering crosses the boundary between the NFKDs of a code point and of a representative combining mark, packed
\* into passphrases: pieces separated by "|" (a starter that composes with nothing), 48 code points / 32 pairs per
\* passphrase, pieces of one passphrase having the same quick-check signature (so that a passphrase that IS
\* already in some normalisation form exists for every class of piece).  One wrong code point changes the seed.
Sep == 124
Mn12   == Phrase(IdxFromBuffer(EntPattern(3, EntBytes(12), <<22, 1>>), 12))
Groups == [g \in 0..7 |-> SelectSeq(Interesting, LAMBDA cp : Sig(<<cp>>) = g)]
PerSingle == 48
ChunksOf(len, per) == (len + per - 1) \div per
SingleOff == [g \in 0..8 |-> IF g = 0 THEN 0 ELSE LET RECURSIVE sum(_)
                                                      sum(q) == IF q < 0 THEN 0 ELSE ChunksOf(Len(Groups[q]), PerSingle) + sum(q - 1)
                                                  IN sum(g - 1)]
NSingles == SingleOff[8]
SingleSweepAt(j) ==
  LET g   == CHOOSE q \in 0..7 : SingleOff[q] < j /\ j <= SingleOff[q + 1]
      k   == j - SingleOff[g] - 1
      cps == SubSeq(Groups[g], PerSingle * k + 1, IF PerSingle * (k + 1) < Len(Groups[g]) THEN PerSingle * (k + 1) ELSE Len(Groups[g]))
      pw  == Concat([i \in 1..Len(cps) |-> <<Sep, cps[i]>>])
  IN  MItem("mnemonic.seed", "nfkd_every_code_point", [text |-> Mn12, pass |-> CpsToStr(pw)])

NL == Len(LeftCands)
NM == Len(MarkReps)
PairA(k) == LeftCands[1 + ((k - 1) \div NM)]
PairB(k) == MarkReps[1 + ((k - 1) % NM)]
PairIdx == SelectSeq([k \in 1..(NL * NM) |-> k], LAMBDA k : NonLocal(PairA(k), PairB(k)))
\* quick tier: the first and the last partner of every left code point
EdgePos == SelectSeq([p \in 1..Len(PairIdx) |-> p],
                     LAMBDA p : p = 1 \/ p = Len(PairIdx) \/ PairA(PairIdx[p - 1]) # PairA(PairIdx[p]) \/ PairA(PairIdx[p + 1]) # PairA(PairIdx[p]))
Chosen == IF Thorough THEN PairIdx ELSE [i \in 1..Len(EdgePos) |-> PairIdx[EdgePos[i]]]
PairGroups == [g \in 0..7 |-> SelectSeq(Chosen, LAMBDA k : Sig(<<PairA(k), PairB(k)>>) = g)]
PerPair == 32
PairOff == [g \in 0..8 |-> IF g = 0 THEN 0 ELSE LET RECURSIVE sum(_)
                                                    sum(q) == IF q < 0 THEN 0 ELSE ChunksOf(Len(PairGroups[q]), PerPair) + sum(q - 1)
                                                IN sum(g - 1)]
NPairs == PairOff[8]
PairSweepAt(j) ==
  LET g   == CHOOSE q \in 0..7 : PairOff[q] < j /\ j <= PairOff[q + 1]
      k   == j - PairOff[g] - 1
      ks  == SubSeq(PairGroups[g], PerPair * k + 1, IF PerPair * (k + 1) < Len(PairGroups[g]) THEN PerPair * (k + 1) ELSE Len(PairGroups[g]))
      pw  == Concat([i \in 1..Len(ks) |-> <<Sep, PairA(ks[i]), PairB(ks[i])>>])
  IN  MItem("mnemonic.seed", "nfkd_reordering_pairs", [text |-> Mn12, pass |-> CpsToStr(pw)])
\* the same pairs one per passphrase, WITHOUT any other character (the whole passphrase has the pair's signature)
NLonePairs == IF Thorough THEN 4000 ELSE 400
LonePairAt(j) ==
  LET k == Chosen[1 + (((j - 1) * 7919) % Len(Chosen))]
  IN  MItem("mnemonic.seed", "nfkd_reordering_pair_alone", [text |-> Mn12, pass |-> CpsToStr(<<PairA(k), PairB(k)>>)])

\* RUNS: a starter followed by n copies of one character - combining marks of several classes, a precomposed letter, a
\* compatibility character, a conjoining jamo, an ASCII letter - for every n up to 40 and around 64, 128, 256 (buffer
\* and block sizes, the 30-mark limit of the stream-safe text format): normalisation has no length limit
RunFill == <<769, 803, 820, 12441, 65438, 233, 4449, 97, 847>>
RunLens == [i \in 1..40 |-> i] \o <<62, 63, 64, 65, 66, 126, 127, 128, 129, 130, 255, 256, 257, 600>>
NRuns == Len(RunFill) * Len(RunLens)
RunAt(j) ==
  LET c == RunFill[1 + ((j - 1) % Len(RunFill))]
      n == RunLens[1 + ((j - 1) \div Len(RunFill))]
      pre == IF j % 2 = 0 THEN <<101>> ELSE <<233>>
  IN  MItem("mnemonic.seed", "runs", [text |-> Mn12, pass |-> CpsToStr(pre \o [i \in 1..n |-> c])])

\* LONG passphrases: filler letters, then a pair of marks that canonical reordering swaps (U+0307 class 230, U+0323 class
\* 220), placed so that the second mark begins at byte offset B - s for the block sizes B = 256 .. 65536 and s = 0..9 (with
\* and without the 8 bytes of "mnemonic" in front, and one off): normalisation is not local to a window of bytes.  The same
\* with a precomposed letter (U+00EA) in front of the second mark, and with a compatibility character.
BlockSizes == <<256, 512, 1024, 2048, 4096, 8192, 16384, 32768, 65536>>
NBoundary == Len(BlockSizes) * 10 * 3
BoundaryAt(j) ==
  LET B == BlockSizes[1 + ((j - 1) % Len(BlockSizes))]
      s == ((j - 1) \div Len(BlockSizes)) % 10
      m == (j - 1) \div (10 * Len(BlockSizes))
      first == IF m = 0 THEN <<775>> ELSE IF m = 1 THEN <<234>> ELSE <<65438>>          \* 2, 2 and 3 bytes of UTF-8
      flen  == IF m = 2 THEN 3 ELSE 2
      second == IF m = 2 THEN <<12441>> ELSE <<803>>
  IN  MItem("mnemonic.seed", "block_boundaries",
            [text |-> Mn12, pass |-> CpsToStr(Rep(B - s - flen, 97) \o first \o second \o <<98, 99>>)])

Pool == <<228, 8491, 65313, 64257, 178, 54620, 119964, 128512, 97, 776, 32, 49, 241, 937>>
NFixed == 5 * 2 * Len(Passes)
NMix   == IF Thorough THEN 3000 ELSE 150
Count  == NFixed + NMix + NSingles + NPairs + NLonePairs + NRuns + NBoundary
ItemAt(g) ==
  IF g > NFixed + NMix + NSingles + NPairs + NLonePairs + NRuns THEN BoundaryAt(g - NFixed - NMix - NSingles - NPairs - NLonePairs - NRuns)
  ELSE IF g > NFixed + NMix + NSingles + NPairs + NLonePairs THEN RunAt(g - NFixed - NMix - NSingles - NPairs - NLonePairs)
  ELSE IF g > NFixed + NMix + NSingles + NPairs THEN LonePairAt(g - NFixed - NMix - NSingles - NPairs)
  ELSE IF g > NFixed + NMix + NSingles THEN PairSweepAt(g - NFixed - NMix - NSingles)
  ELSE IF g > NFixed + NMix THEN SingleSweepAt(g - NFixed - NMix)
  ELSE IF g <= NFixed THEN
    LET n   == SizeOf(1 + ((g - 1) % 5))
        lay == ((g - 1) \div 5) % 2
        pw  == Passes[1 + ((g - 1) \div 10)]
        idx == IdxFromBuffer(EntPattern(3, EntBytes(n), <<20, n>>), n)
    IN  MItem("mnemonic.seed", "passes",
              [text |-> IF lay = 0 THEN Phrase(idx) ELSE "\n " \o JoinWith(idx, " \t") \o " \r\n",
               pass |-> CpsToStr(pw)])
  ELSE
    LET j   == g - NFixed
        n   == SizeOf(1 + (j % 5))
        idx == IdxFromBuffer(EntPattern(3, EntBytes(n), <<21, j>>), n)
        len == PrngNat(K("pwlen", <<j>>), 9)
        pw  == [i \in 1..len |-> Pool[1 + PrngNat(K("pwc", <<j, i>>), Len(Pool))]]
    IN  MItem("mnemonic.seed", "mix", [text |-> Phrase(idx), pass |-> CpsToStr(pw)])
Histories == IF "VERIF_TIER" \in DOMAIN IOEnv /\ IOEnv.VERIF_TIER = "thorough" THEN 300 ELSE 40
VARIABLE n
INSTANCE GenBase
=============================================================================
