------------------------------ MODULE Gen_C02 ------------------------------
(***************************************************************************)
(* Workload for C02: seeds of valid phrases of all five lengths, in        *)
(* canonical and non-canonical layout, under passphrases drawn from the    *)
(* normalisation classes (NFKD-equivalent spellings are generated side by  *)
(* side).  Code points are restricted to characters assigned before        *)
(* Unicode 6 (normalisation of assigned characters is frozen, so JDK 17's  *)
(* tables and the crate's agree).                                          *)
(***************************************************************************)
EXTENDS GenMn
Passes == <<
  <<>>,                                        \* empty
  <<84, 82, 69, 90, 79, 82>>,                  \* TREZOR
  <<112, 97, 115, 115, 32, 119, 111, 114, 100>>, \* "pass word" (inner space kept)
  <<112, 228, 115, 115>>,                      \* p a-umlaut s s   (precomposed)
  <<112, 97, 776, 115, 115>>,                  \* p a + combining diaeresis s s
  <<197>>, <<8491>>, <<65, 778>>,              \* A-ring, ANGSTROM SIGN, A + ring
  <<241>>, <<110, 771>>,                       \* n-tilde
  <<65313, 65314, 65315, 65297, 65298>>, <<65, 66, 67, 49, 50>>,   \* full-width ABC12 / ASCII
  <<64257>>, <<102, 105>>,                     \* fi ligature / "fi"
  <<178>>, <<50>>,                             \* superscript two / "2"
  <<54620>>, <<4370, 4449, 4523>>,             \* Hangul syllable / jamo
  <<119964>>, <<65>>,                          \* MATHEMATICAL SCRIPT CAPITAL A / "A"
  <<128512>>,                                  \* emoji (unchanged by NFKD)
  <<8486>>, <<937>>,                           \* OHM SIGN / GREEK OMEGA
  <<7835>>, <<383, 775>>,                      \* long s with dot above (NFKD -> s + dot)
  <<97, 769, 807>>, <<97, 807, 769>>,          \* combining marks in two orders (canonical reordering)
  <<84, 82, 69, 90, 79, 82, 32>>, <<84, 82, 69, 90, 79, 82, 10>>, <<32>>, <<120, 12288>>, <<32, 108, 101, 97, 100>>,   \* whitespace is significant:
  <<9, 120, 9>>, <<120, 13, 10>>, <<0>>, <<120, 0, 121>>                                                   \* trailing/leading blanks, NUL
>>
Pool == <<228, 8491, 65313, 64257, 178, 54620, 119964, 128512, 97, 776, 32, 49, 241, 937>>
NFixed == 5 * 2 * Len(Passes)
NMix   == IF Thorough THEN 3000 ELSE 150
Count  == NFixed + NMix
ItemAt(g) ==
  IF g <= NFixed THEN
    LET n   == SizeOf(1 + ((g - 1) % 5))
        lay == ((g - 1) \div 5) % 2
        pw  == Passes[1 + ((g - 1) \div 10)]
        idx == IdxFromBuffer(EntPattern(3, EntBytes(n), <<20, n>>), n)
    IN  MItem("mnemonic.seed", "passes",
              [text |-> IF lay = 0 THEN Phrase(idx) ELSE "\n " \o JoinWith(idx, " \t") \o " \r\n",
               pass |-> CpsToStr(pw)])
  ELSE
    LET j   == g - NFixed
        n   == SizeOf(1 + (j % 5))
        idx == IdxFromBuffer(EntPattern(3, EntBytes(n), <<21, j>>), n)
        len == PrngNat(K("pwlen", <<j>>), 9)
        pw  == [i \in 1..len |-> Pool[1 + PrngNat(K("pwc", <<j, i>>), Len(Pool))]]
    IN  MItem("mnemonic.seed", "mix", [text |-> Phrase(idx), pass |-> CpsToStr(pw)])
VARIABLE n
INSTANCE GenBase
=============================================================================
