----------------------------- MODULE PrimTest -----------------------------
(* Validation of the trusted Java primitives against vectors stated in the  *)
(* standards, and of Bytes.tla bignum arithmetic on spot values.  Run by    *)
(* setup_cmd; a failing ASSUME aborts TLC.                                   *)
EXTENDS Bytes, Prim, HdwIO, Bip32, Ecdsa, TLC

H(s) == HexToBytes(s)
A(s) == StrToUtf8(s)

ASSUME Sha256(<<>>) = H("e3b0c44298fc1c149afbf4c8996fb92427ae41e4649b934ca495991b7852b855")
ASSUME Sha256(A("abc")) = H("ba7816bf8f01cfea414140de5dae2223b00361a396177a9cb410ff61f20015ad")
ASSUME Keccak256(<<>>) = H("c5d2460186f7233c927e7db2dcc703c0e500b653ca82273b7bfad8045d85a470")
ASSUME Keccak256(A("abc")) = H("4e03657aea45a94fc7d47ba826c8d667c0d1e6e33a64a036ec44f58fa12d6c45")
\* a message longer than one 136-byte block
ASSUME Keccak256(Rep(200, 163)) = H("3a57666b048777f2c953dc4456f45a2588e1cb6f2da760122d530ac2ce607d4a")
\* RFC 4231 test case 1 and 2
ASSUME HmacSha512(Rep(20, 11), A("Hi There")) =
  H("87aa7cdea5ef619d4ff0b4241a1d6cb02379f4e2ce4ec2787ad0b30545e17cdedaa833b7d6b8a702038b274eaea3f4e4be9d914eeb61f1702e696c203a126854")
ASSUME HmacSha512(A("Jefe"), A("what do ya want for nothing?")) =
  H("164b7a7bfcf819e2e395fbe73b56e0a387bd64222e831fd610270cd7ea2505549758bf75c05a994a6d034f65f8f0e6fdcaeab1a34d4a6b4b636e070a38bce737")
\* BIP-39 vector (entropy 0, passphrase TREZOR)
ASSUME Pbkdf2HmacSha512(
         A("abandon abandon abandon abandon abandon abandon abandon abandon abandon abandon abandon about"),
         A("mnemonicTREZOR"), 2048, 64) =
  H("c55257c360c07c72029aebc1b53c05ed0362ada38ead3e3e9efa3708e53495531f09a6987599d18264c1e1c92f2cf141630c7a3c4ab7c81b2f001698e7463b04")
\* PBKDF2-HMAC-SHA512 multi-block (dkLen > 64): "password"/"salt", c = 1, first 64 bytes known
ASSUME Take(Pbkdf2HmacSha512(A("password"), A("salt"), 1, 100), 64) =
  H("867f70cf1ade02cff3752599a3a53dc4af34c7a669815ae5d513554e1c8cf252c02d470a285a0501bad999bfe943c08f050235d7d68b1da55e63f73b60a57fce")
\* secp256k1: G, 2G, (n-1)G = -G
ASSUME EcBaseMul(<<1>>) = H("79be667ef9dcbbac55a06295ce870b07029bfcdb2dce28d959f2815b16f81798483ada7726a3c4655da4fbfc0e1108a8fd17b448a68554199c47d08ffb10d4b8")
ASSUME EcBaseMul(<<2>>) = H("c6047f9441ed7d6d3045406e95c07cd85c778e4b8cef3ca7abac09b95c709ee51ae168fea63dc339a3c58419466ceaeef7f632653266d0e1236431a950cfe52a")
ASSUME EcBaseMul(H("fffffffffffffffffffffffffffffffebaaedce6af48a03bbfd25e8cd0364140")) =
  H("79be667ef9dcbbac55a06295ce870b07029bfcdb2dce28d959f2815b16f81798b7c52588d95c3b9aa25b0403f1eef75702e84bb7597aabe663b82f6f04ef2777")
ASSUME EcBaseMul(H("fffffffffffffffffffffffffffffffebaaedce6af48a03bbfd25e8cd0364141")) = <<>>
\* RFC 6979 secp256k1 community vector: key 1, SHA-256("Satoshi Nakamoto")
ASSUME Rfc6979K(PadLeft(<<1>>, 32), Sha256(A("Satoshi Nakamoto"))) =
  H("8f8a276c19f4149656b280621e358cce24f5f52542772691ee69063b74f15d15")
\* NFKD
ASSUME Nfkd(<<233>>) = <<101, 769>>                 \* e-acute -> e + combining acute
ASSUME Nfkd(<<65313>>) = <<65>>                      \* fullwidth A -> A
ASSUME Nfkd(<<8491>>) = <<65, 778>>                  \* Angstrom sign -> A + ring
ASSUME NormForm("NFKD", <<233, 65313>>) = Nfkd(<<233, 65313>>) /\ NormForm("NFD", <<233, 65313>>) = <<101, 769, 65313>>
ASSUME NormForm("NFC", <<101, 769>>) = <<233>> /\ NormForm("NFKC", <<65313, 778>>) = <<197>>
ASSUME CpClass(769) = "mark" /\ CpClass(97) = "other" /\ CpClass(55296) = "surrogate" /\ CpClass(57344) = "private" /\ CpClass(888) = "unassigned"
ASSUME Nfkd(<<180, 803>>) = <<32, 803, 769>>        \* compatibility expansion ends in a mark that is reordered with the next one
ASSUME Nfkd(<<64257>>) = <<102, 105>>                \* fi ligature
ASSUME StrToCps(CpsToStr(<<97, 233, 119964, 128512>>)) = <<97, 233, 119964, 128512>>
ASSUME StrToUtf8(CpsToStr(<<233, 128512>>)) = <<195, 169, 240, 159, 152, 128>>
ASSUME Utf8ToStr(<<195, 169>>) = CpsToStr(<<233>>)
ASSUME BytesToHex(<<0, 255, 16>>) = "00ff10" /\ HexToBytes("0x00Ff10") = <<0, 255, 16>>

\* modular arithmetic
N == H("fffffffffffffffffffffffffffffffebaaedce6af48a03bbfd25e8cd0364141")
ASSUME BnMulMod(<<2>>, BnInvMod(<<2>>, N), N) = PadLeft(<<1>>, 32)

\* Bytes.tla spot checks
ASSUME BnAdd(<<255, 255>>, <<1>>) = <<1, 0, 0>>
ASSUME BnSub(<<1, 0, 0>>, <<1>>) = <<255, 255>>
ASSUME BnSub(<<5>>, <<5>>) = <<>>
ASSUME BnCmp(<<0, 1>>, <<1>>) = 0 /\ BnCmp(<<1, 0>>, <<255>>) = 1 /\ BnCmp(<<>>, <<1>>) = -1
ASSUME BnMulAddSmall(<<255, 255>>, 10000, 9999) = BnFromNat(65535 * 10000 + 9999)
ASSUME BnDivModSmall(BnFromNat(1000003), 10) = <<BnFromNat(100000), 3>>
ASSUME BnToNat(BnFromNat(2147483647)) = 2147483647
ASSUME BnFromDec(<<1,1,5,7,9,2,0,8,9,2,3,7,3,1,6,1,9,5,4,2,3,5,7,0,9,8,5,0,0,8,6,8,7,9,0,7,8,5,3,2,6,9,9,8,4,6,6,5,6,4,0,5,6,4,0,3,9,4,5,7,5,8,4,0,0,7,9,1,3,1,2,9,6,3,9,9,3,6>>)
        = BnPow2(256)
ASSUME BnToDec(BnPow2(64)) = <<1,8,4,4,6,7,4,4,0,7,3,7,0,9,5,5,1,6,1,6>>
ASSUME BnToDec(<<>>) = <<0>> /\ BnFromDec(<<0, 0>>) = <<>>
ASSUME BnFromHexDigits(<<1, 0, 0>>) = <<1, 0>> /\ BnToHexDigits(<<1, 0>>) = <<1, 0, 0>>
ASSUME BnBitLen(<<>>) = 0 /\ BnBitLen(<<1>>) = 1 /\ BnBitLen(<<128, 0>>) = 16
ASSUME BnAddMod(H("fffffffffffffffffffffffffffffffebaaedce6af48a03bbfd25e8cd0364140"), <<2>>, N) = <<1>>
ASSUME BnNeg256(<<1>>) = Rep(32, 255)
ASSUME HexLower(<<0, 171>>) = <<48, 48, 97, 98>>
ASSUME NatDecCodes(1024) = <<49, 48, 50, 52>>
\* the native search accelerator equals its TLA+ definition
M0 == Master(Rep(32, 7))
ASSUME \A k \in {0, 1, 135, 136, 137, 300} : Keccak256Rep(<<1, 2, 3>>, 90, k) = Keccak256(<<1, 2, 3>> \o [i \in 1..k |-> 90])
\* the native bulk oracle equals its TLA+ definition (12 signatures, some of which need the low-s flip)
ASSUME \A q \in 1..2 : LET d == Sha256(<<q>>) IN BulkSignHash(d, <<7, q>>, 1000 * q, 6) = BulkSignHashSpec(d, <<7, q>>, 1000 * q, 6)
ASSUME \E i \in 1..6 : Sign(Sha256(<<1>>), BulkDigest(<<7, 1>>, 1000 + i - 1)).flipped
ASSUME \E i \in 1..6 : ~Sign(Sha256(<<1>>), BulkDigest(<<7, 1>>, 1000 + i - 1)).flipped
ASSUME \A w \in 0..3 : RareHardenedChild(M0.k, M0.c, 1, 700 * w, 700 * w + 699) = RareHardenedChildSpec(M0.k, M0.c, 1, 700 * w, 700 * w + 699)
ASSUME RareHardenedChild(M0.k, M0.c, 1, 0, 5000) >= 0 /\ RareHardenedChild(M0.k, M0.c, 31, 0, 1000) = 0 - 1
ASSUME LET i == RareHardenedChild(M0.k, M0.c, 2, 0, 400000) IN i >= 0 /\ SubSeq(CKD(M0, Comp(TRUE, BnFromNat(i))).k, 1, 2) = <<0, 0>>
ASSUME PrintT("PrimTest: all vectors passed")
=============================================================================
