------------------------------- MODULE GenKeys -------------------------------
(***************************************************************************)
(* Workload families for paths, derivation, keys and signatures (Gen_C03,  *)
(* Gen_C04, Gen_C05, Gen_C14, Gen_C15).                                     *)
(***************************************************************************)
EXTENDS DocAst, HdPath, Ecdsa, SigText, Bip32, IOUtils, TLC

Seed     == IF "VERIF_SEED" \in DOMAIN IOEnv THEN IOEnv.VERIF_SEED ELSE "0"
Thorough == "VERIF_TIER" \in DOMAIN IOEnv /\ IOEnv.VERIF_TIER = "thorough"
K(tag, nums) == Key(Seed \o "/" \o tag, nums)
KItem(op, fam, in) == [i |-> 0, op |-> op, fam |-> fam, in |-> in]
Str(cs) == Utf8ToStr(cs)

NMinus(k) == BnFixed(BnSub(CurveN, <<k>>), 32)
NPlus(k)  == BnFixed(BnAdd(CurveN, <<k>>), 32)

\* ---- paths -------------------------------------------------------------------
\* every string of length len over the path alphabet, numbered 0 .. 10^len - 1
Alphabet == <<109, 47, 39, 48, 49, 57, 45, 46, 43, 32>>       \* m / ' 0 1 9 - . + SPACE
StringNo(len, k) == [i \in 1..len |-> Alphabet[1 + ((k \div (10 ^ (len - i))) % 10)]]
MaxStrLen == IF Thorough THEN 5 ELSE 4
\* cumulative counts: 1 + 10 + 100 + ...
NStrings == (10 ^ (MaxStrLen + 1) - 1) \div 9
StringAt(j) ==          \* j in 1..NStrings
  LET len == CHOOSE l \in 0..MaxStrLen : (10 ^ l - 1) \div 9 < j /\ j <= (10 ^ (l + 1) - 1) \div 9
      k   == j - 1 - (10 ^ len - 1) \div 9
  IN  KItem("path.parse", "strings", [text |-> Str(StringNo(len, k))])

\* boundary components at every depth position
BoundIdx == <<<<>>, <<1>>, BnSub(Two31, <<1>>), Two31, BnAdd(Two31, <<1>>), BnSub(BnPow2(32), <<1>>), BnPow2(32),
              BnPow2(64), BnFromDec(<<1>> \o Zeros(30))>>
NBoundPaths == Len(BoundIdx) * 2 * 5 * 2
BoundPathText(j) ==
  LET b     == BoundIdx[1 + ((j - 1) % Len(BoundIdx))]
      hard  == ((j - 1) \div Len(BoundIdx)) % 2 = 1
      depth == 1 + (((j - 1) \div (2 * Len(BoundIdx))) % 5)
      pos   == 1 + (j % depth)
      comp(i) == IF i = pos THEN DecCodes(BnToDec(b)) \o (IF hard THEN <<39>> ELSE <<>>)
                 ELSE DecCodes(BnToDec(BnFromNat((i * 13 + j) % 100))) \o (IF (i + j) % 2 = 0 THEN <<39>> ELSE <<>>)
  IN  Str(<<109>> \o Concat([i \in 1..depth |-> <<47>> \o comp(i)]))
BoundPathAt(j) ==
  IF j <= NBoundPaths \div 2 THEN KItem("path.parse", "bounds", [text |-> BoundPathText(j)])
  ELSE KItem("hdk.derive", "bounds", [seed |-> BytesToHex(Prng(K("bseed", <<>>), 64)), path |-> BoundPathText(j - NBoundPaths \div 2)])

OpenPaths == <<"m", "m/", "m//1", "/m/1", "M/1", "m/01", "m/+1", "m/1h", "m/1H", " m/1", "m/1 ", "m/ 1", "m/1'/", "m/1''",
               "m/'", "m/-1", "m/1.0", "m/1e3", "m/0x10", "m/1/2/3/4/5/6/7/8/9/10", "44'/60'/0'/0/0", "m/44'/60'/0'/0/0",
               "m/2147483647'", "m/2147483648'", "m/2147483648", "m/4294967295", "m/4294967296", "m/00000000001",
               "m/\t1", "n/1", "mm/1", "m\\1", "", "m/1/", "m/١">>
OpenPathAt(j) ==
  IF j <= Len(OpenPaths) THEN KItem("path.parse", "named", [text |-> OpenPaths[j]])
  ELSE KItem("hdk.derive", "named", [seed |-> BytesToHex(Prng(K("oseed", <<>>), 32)), path |-> OpenPaths[j - Len(OpenPaths)]])
NOpenPaths == 2 * Len(OpenPaths)

\* well-known path prefixes (the tool's own default account path and its ancestors, other coins' BIP-44 / 49 / 84
\* account paths) continued by every sequence of 0..3 further components over {0, 1', 5, 2147483647'}: a path is a
\* sequence of components, whatever its beginning looks like.  Every second item derives a key along it.
KnownPrefixes == <<"m", "m/44'", "m/44'/60'", "m/44'/60'/0'", "m/44'/60'/0'/0", "m/44'/60'/0'/0/0", "m/44'/60'/0'/0/7", "m/44'/60'/0'/1",
                   "m/44'/60'/1'/0", "m/44'/61'/0'/0", "m/44'/1'/0'/0", "m/44'/0'/0'/0", "m/49'/0'/0'/0", "m/84'/0'/0'/0", "m/44/60/0/0",
                   "m/0'/0'", "m/44'/60'/0'/0/2147483647">>
ExtComps == <<"0", "1'", "5", "2147483647'">>
ExtNo(k) ==        \* k in 0..84 : the k-th sequence of at most 3 components
  LET len == IF k = 0 THEN 0 ELSE IF k <= 4 THEN 1 ELSE IF k <= 20 THEN 2 ELSE 3
      m   == IF len = 1 THEN k - 1 ELSE IF len = 2 THEN k - 5 ELSE k - 21
  IN  [i \in 1..len |-> ExtComps[1 + ((m \div (4 ^ (len - i))) % 4)]]
RECURSIVE JoinExt(_)
JoinExt(xs) == IF xs = <<>> THEN "" ELSE "/" \o Head(xs) \o JoinExt(Tail(xs))
NPrefixExt == Len(KnownPrefixes) * 85
PrefixExtAt(j) ==
  LET text == KnownPrefixes[1 + ((j - 1) \div 85)] \o JoinExt(ExtNo((j - 1) % 85))
  IN  IF j % 2 = 0 THEN KItem("path.parse", "known_prefix_extended", [text |-> text])
      ELSE KItem("hdk.derive", "known_prefix_extended", [seed |-> BytesToHex(Prng(K("pxseed", <<j % 5>>), 32)), path |-> text])

\* every COMPONENT text of 1..4 characters over the component alphabet (' 0 1 9 - . + SPACE), as the only component and as
\* a middle component of a deeper path: digits after the hardened marker (0'0 - a forgotten slash), doubled and leading
\* markers, signs and points in every place.  (The strings family above reaches whole paths of 4 / 5 characters only.)
CompAlphabet == <<39, 48, 49, 57, 45, 46, 43, 32>>
CompNo(len, k) == [i \in 1..len |-> CompAlphabet[1 + ((k \div (8 ^ (len - i))) % 8)]]
NCompStr == 8 + 64 + 512 + 4096
CompStr(j) ==           \* j in 1..NCompStr
  LET len == CHOOSE l \in 1..4 : (8 ^ l - 8) \div 7 < j /\ j <= (8 ^ (l + 1) - 8) \div 7
  IN  CompNo(len, j - 1 - (8 ^ len - 8) \div 7)
NCompShapes == 2 * NCompStr
CompShapeAt(j) ==
  LET c == Str(CompStr(1 + ((j - 1) % NCompStr)))
  IN  KItem("path.parse", "component_shapes", [text |-> IF j <= NCompStr THEN "m/" \o c ELSE "m/44'/" \o c \o "/0"])

\* every character U+0001..U+00FF before and after the digit of a path component
NPathEveryChar == 2 * NTryChars
PathEveryCharAt(j) ==
  LET cp == TryChar(1 + ((j - 1) % NTryChars))
  IN  KItem("path.parse", "every_character", [text |-> IF j <= NTryChars THEN "m/" \o CpsToStr(<<cp>>) \o "1" ELSE "m/1" \o CpsToStr(<<cp>>)])

\* HISTORIES: several derivations on one thread of one process whose seeds / paths are related - the same seed again,
\* seeds that differ in the first / last / a middle byte or word, a seed that is a prefix of the other, the same bytes
\* rotated; sibling paths, the same path again.  A memo keyed by less than (seed, path) answers one of them wrongly.
HistSeed(r, v) ==
  LET a == Prng(K("hs", <<r>>), 64) IN
  IF v = 0 THEN a
  ELSE IF v = 1 THEN [a EXCEPT ![1] = (a[1] + 1) % 256]
  ELSE IF v = 2 THEN [a EXCEPT ![64] = (a[64] + 1) % 256]
  ELSE IF v = 3 THEN [a EXCEPT ![29] = (a[29] + 128) % 256]
  ELSE IF v = 4 THEN SubSeq(a, 1, 32)
  ELSE IF v = 5 THEN SubSeq(a, 2, 64) \o <<a[1]>>
  ELSE IF v = 6 THEN [i \in 1..64 |-> IF i \in 9..16 THEN (a[i] + i) % 256 ELSE a[i]]
  ELSE [i \in 1..64 |-> a[65 - i]]
HistPaths == <<"m/44'/60'/0'/0/0", "m/44'/60'/0'/0/1", "m/44'/60'/0'/0", "m/0'/1", "m/0'/2", "m/44'/60'/0'/0/0">>
NHist == IF Thorough THEN 200 ELSE 24
HistAt(j) ==
  LET mult == 1 + (j % 3)
      np   == IF j % 2 = 0 THEN 2 ELSE 6
      step(k) == [seed |-> BytesToHex(HistSeed(j, ((k * mult) + j) % 8)), path |-> HistPaths[1 + ((k + (j \div 8)) % np)]]
  IN  KItem("hdk.derive.seq", "history", [steps |-> [k \in 1..12 |-> step(k)]])

\* HISTORIES over RELATED PATHS with one seed: every ordered pair (A, B) of the paths  P/x  and  P/x/y  with x, y from a
\* component alphabet whose texts are prefixes of one another (1, 10, 1', 0, ...), derived one after the other on one
\* thread.  A memo of intermediate nodes keyed by path TEXT, by a component prefix, by depth, or by the index without
\* the hardened bit answers one of the pairs wrongly (m/../1/0 then m/../10/0).
RelComps == IF Thorough THEN <<"1", "10", "1'", "0", "0'", "100", "2147483647">> ELSE <<"1", "10", "1'", "0">>
RelPrefix == "m/44'/60'/0'"
NRelPaths == Len(RelComps) + Len(RelComps) * Len(RelComps)
RelPath(p) ==           \* p in 0..NRelPaths-1
  LET L == Len(RelComps) IN
  IF p < L THEN RelPrefix \o "/" \o RelComps[p + 1]
  ELSE RelPrefix \o "/" \o RelComps[1 + ((p - L) \div L)] \o "/" \o RelComps[1 + ((p - L) % L)]
NRelHist == (NRelPaths * NRelPaths + 5) \div 6
RelHistAt(j) ==
  LET sd == BytesToHex(Prng(K("relseed", <<j % 3>>), 64))
      step(k) == LET q == ((j - 1) * 6 + ((k - 1) \div 2)) % (NRelPaths * NRelPaths)
                 IN  [seed |-> sd, path |-> RelPath(IF k % 2 = 1 THEN q \div NRelPaths ELSE q % NRelPaths)]
  IN  KItem("hdk.derive.seq", "history_related_paths", [steps |-> [k \in 1..12 |-> step(k)]])

ForIdx == <<<<>>, <<1>>, <<2>>, <<7>>, <<1, 0, 0>>, BnSub(Two31, <<1>>), Two31, BnSub(BnPow2(32), <<1>>), BnPow2(32), BnPow2(63)>>
ForIndexAt(j) == KItem("path.for_index", "for_index", [index |-> Str(DecCodes(BnToDec(ForIdx[j])))])

\* HISTORIES of for_index on one thread: every word of length 3 over the index alphabet (valid and invalid indices,
\* repeated or not), 25 words per history: the answer depends on the index alone
NForIdxHist == (Len(ForIdx) * Len(ForIdx) * Len(ForIdx)) \div 25
ForIdxHistAt(j) ==
  LET L == Len(ForIdx)
      word(q) == LET k == (j - 1) * 25 + q - 1 IN <<1 + (k \div (L * L)), 1 + ((k \div L) % L), 1 + (k % L)>>
      step(x) == [op |-> "path.for_index", in |-> [index |-> Str(DecCodes(BnToDec(ForIdx[x])))]]
  IN  KItem("seq", "for_index_words", [steps |-> Concat([q \in 1..25 |-> LET w == word(q) IN <<step(w[1]), step(w[2]), step(w[3])>>])])

\* ---- derivation ------------------------------------------------------------------
SeedLens == <<1, 16, 32, 64, 65, 128>>
CompIdx  == <<<<>>, <<1>>, <<2>>, <<44>>, <<60>>, <<255>>, <<1, 0>>, <<255, 255>>, <<1, 0, 0>>, <<255, 255, 255>>,
              <<1, 0, 0, 0>>, BnSub(Two31, <<2>>), BnSub(Two31, <<1>>)>>
CompText(c) == DecCodes(BnToDec(CompIdx[1 + (c % 13)])) \o (IF c >= 13 THEN <<39>> ELSE <<>>)     \* c in 0..25
SeedHex(s, r) == BytesToHex(IF s % 3 = 0 THEN Prng(K("seed", r), SeedLens[1 + (s % 6)])
                            ELSE IF s % 3 = 1 THEN Rep(SeedLens[1 + (s % 6)], 255)
                            ELSE Zeros(SeedLens[1 + (s % 6)]))
\* exhaustive depth 1 (26) and depth 2 (676)
Depth1At(j) == KItem("hdk.derive", "depth1", [seed |-> SeedHex(j, <<1, j>>), path |-> Str(<<109, 47>> \o CompText(j - 1))])
Depth2At(j) == KItem("hdk.derive", "depth2",
                     [seed |-> SeedHex(j, <<2, j>>),
                      path |-> Str(<<109, 47>> \o CompText((j - 1) \div 26) \o <<47>> \o CompText((j - 1) % 26))])
NWalks == IF Thorough THEN 24000 ELSE 400
WalkAt(j) ==
  LET depth == 1 + PrngNat(K("wd", <<j>>), 10)
      comp(i) == LET r == PrngNat(K("wc", <<j, i>>), 4) IN
                 IF r = 0 THEN CompText(PrngNat(K("wb", <<j, i>>), 26))
                 ELSE LET v == BnNorm(Prng(K("wv", <<j, i>>), 4))
                          w == IF BnLt(v, Two31) THEN v ELSE BnSub(v, Two31)
                      IN  DecCodes(BnToDec(w)) \o (IF r = 1 THEN <<39>> ELSE <<>>)
  IN  KItem("hdk.derive", "walk",
            [seed |-> SeedHex(j, <<3, j>>), path |-> Str(<<109>> \o Concat([i \in 1..depth |-> <<47>> \o comp(i)]))])

\* spec-directed search for derivation steps whose CHILD KEY has a rare shape: three leading zero bytes (one
\* hardened index in 2^24).  Each item searches its own window of 2^20 hardened indices below the master key of a
\* fixed seed (natively, Bip32!RareHardenedChild) and derives m/i' and a descendant of it when the window has a hit.
RareSeed == [i \in 1..64 |-> (i * 5 + 1) % 256]
NRare == IF Thorough THEN 256 ELSE 48
RareAt(j) ==
  LET m   == Master(RareSeed)
      lo  == (j - 1) * 1048576
      i   == RareHardenedChild(m.k, m.c, 3, lo, lo + 1048575)
      txt == IF i >= 0 THEN "m/" \o ToString(i) \o "'" \o (IF j % 2 = 0 THEN "/0" ELSE "") ELSE "m/" \o ToString(lo) \o "'"
  IN  KItem("hdk.derive", IF i >= 0 THEN "rare_child" ELSE "rare_child_none", [seed |-> BytesToHex(RareSeed), path |-> txt])

\* ---- keys ------------------------------------------------------------------------
Scalars == <<PadLeft(<<1>>, 32), PadLeft(<<2>>, 32), PadLeft(<<3>>, 32), NMinus(2), NMinus(1), <<128>> \o Zeros(31),
             Zeros(16) \o <<1>> \o Zeros(15), Zeros(32), BnFixed(CurveN, 32), NPlus(1), Rep(32, 255),
             HexToBytes("4f3edf983ac636a65a842ce7c78d9aa706d3b113bce9c46f30d7d21715b23b1d")>>
NKeyLens == 65 * 3
KeyLenAt(j) ==
  LET len == (j - 1) \div 3
      m   == (j - 1) % 3
      b   == IF m = 0 THEN PadLeft(<<5>>, len) ELSE IF m = 1 THEN Rep(len, 255) ELSE Prng(K("kl", <<j>>), len)
  IN  KItem("key.new", "lengths", [secret |-> BytesToHex(IF len = 0 THEN <<>> ELSE b)])
\* byte strings that ENCODE a valid secret in some other way than as the 32 big-endian bytes: its hexadecimal text
\* (either case, with 0x), the text of a shorter scalar, its decimal text, the secret twice, padded on either side,
\* with a line end, in WIF / DER-like wrappers.  Only zero padding on the LEFT denotes the same integer.
EncScalars == <<PadLeft(<<1>>, 32), NMinus(1), Prng(K("ke", <<1>>), 32), Prng(K("ke", <<2>>), 32), <<0, 0, 0, 0, 0, 0, 0, 0>> \o Prng(K("ke", <<3>>), 24),
                PadLeft(<<171, 205>>, 32), Rep(32, 17), <<0>> \o Prng(K("ke", <<4>>), 31)>>
UpperCodes(cs) == [i \in 1..Len(cs) |-> IF IsLowerHexCode(cs[i]) THEN cs[i] - 32 ELSE cs[i]]
Encodings(k) == <<
  HexLower(k), UpperCodes(HexLower(k)), <<48, 120>> \o HexLower(k), <<48, 88>> \o UpperCodes(HexLower(k)),
  HexLower(BnNorm(k)), <<48, 120>> \o HexLower(BnNorm(k)), HexLower(SubSeq(k, 9, 32)), HexLower(SubSeq(k, 2, 32)),
  DecCodes(BnToDec(BnNorm(k))), k \o k, k \o Zeros(32), Zeros(32) \o k, <<0>> \o k, k \o <<0>>, k \o <<10>>, <<128>> \o k, <<128>> \o k \o <<1>>,
  <<48, 46, 2, 1, 1, 4, 32>> \o k, <<4, 32>> \o k, HexLower(k) \o <<10>>, <<32>> \o HexLower(k), SubSeq(HexLower(k), 1, 32) >>
NEncodings == 22
NKeyEnc == NEncodings * Len(EncScalars)
KeyEncAt(j) ==
  LET k == EncScalars[1 + ((j - 1) \div NEncodings)]
  IN  KItem("key.new", "encoded_secret", [secret |-> BytesToHex(Encodings(k)[1 + ((j - 1) % NEncodings)])])
\* HISTORIES with polynomial-hash twins (DocAst!PolyTwins) of a key / a seed on one thread: the twin right after the
\* original, and the original again
TwinSteps(b, mk(_)) ==
  LET tw == PolyTwins(b, 0)
      some == [q \in 1..(IF Len(tw) < 40 THEN Len(tw) ELSE 40) |-> tw[1 + (((q - 1) * 7) % Len(tw))]]
  IN  Concat([q \in 1..Len(some) |-> <<mk(b), mk(some[q])>>]) \o <<mk(b)>>
NTwinHist == IF Thorough THEN 30 ELSE 6
TwinKeyAt(j) ==
  LET k == IF j = 1 THEN HexToBytes("4f3edf983ac636a65a842ce7c78d9aa706d3b113bce9c46f30d7d21715b23b1d") ELSE Prng(K("tw", <<j>>), 31) \o <<77>>
      z == BytesToHex(Prng(K("twz", <<j>>), 32))
  IN  IF j % 2 = 1 THEN KItem("seq", "polynomial_twin_keys", [steps |-> TwinSteps(k, LAMBDA b : [op |-> "key.sign", in |-> [secret |-> BytesToHex(b), digest |-> z]])])
      ELSE KItem("seq", "polynomial_twin_keys", [steps |-> TwinSteps(k, LAMBDA b : [op |-> "key.new", in |-> [secret |-> BytesToHex(b)]])])
TwinSeedAt(j) ==
  LET s == Prng(K("tws", <<j>>), IF j % 2 = 0 THEN 64 ELSE 16)
  IN  KItem("seq", "polynomial_twin_seeds", [steps |-> TwinSteps(s, LAMBDA b : [op |-> "hdk.derive", in |-> [seed |-> BytesToHex(b), path |-> HistPaths[1 + (j % 2)]]])])

\* HISTORIES of related keys on one thread: k, n - k (same x, opposite y), lambda k and lambda^2 k (same y: the
\* secp256k1 endomorphism), k + 1, 2 k, k again: public key and address are functions of the secret alone
Lambda == HexToBytes("5363ad4cc05c30e0a5261c028812645a122e22ea20816678df02967c1b23bd72")
RelKeys(k) == <<k, BnFixed(BnSub(CurveN, k), 32), BnMulMod(Lambda, k, CurveN), BnMulMod(Lambda, BnMulMod(Lambda, k, CurveN), CurveN), k,
                BnMulMod(PadLeft(<<2>>, 32), k, CurveN), BnMulMod(Lambda, k, CurveN), BnFixed(BnSub(CurveN, BnMulMod(Lambda, k, CurveN)), 32), k>>
NRelKeys == IF Thorough THEN 60 ELSE 12
RelKeysAt(j) ==
  LET k  == IF j = 1 THEN PadLeft(<<1>>, 32) ELSE IF j = 2 THEN NMinus(1) ELSE LET c == Prng(K("rk", <<j>>), 32) IN IF InScalarRange(c) THEN c ELSE PadLeft(<<9>>, 32)
      ks == RelKeys(k)
  IN  KItem("seq", "related_keys_history", [steps |-> [i \in 1..Len(ks) |-> [op |-> "key.new", in |-> [secret |-> BytesToHex(ks[i])]]]])
NKeyRand == IF Thorough THEN 11000 ELSE 800
KeyAt(j) ==
  IF j <= Len(Scalars) THEN KItem("key.new", "scalars", [secret |-> BytesToHex(Scalars[j])])
  ELSE KItem("key.new", "random", [secret |-> BytesToHex(Prng(K("kr", <<j>>), 32))])

\* spec-directed search for keys of a rare shape: the specification's own Pub64 / AddressOf are evaluated on
\* candidate scalars until the public key's X (shape 1) or Y (2) coordinate or the address (3) starts with a zero
\* byte, or X starts with two zero nibbles after a non-zero... (about one key in 256 each)
ScalarOf(k) == PadLeft(BnFromNat(k), 32)
ShapeHit(shape, k) ==
  IF shape = 1 THEN Pub64(ScalarOf(k))[1] = 0
  ELSE IF shape = 2 THEN Pub64(ScalarOf(k))[33] = 0
  ELSE AddressOf(ScalarOf(k))[1] = 0
NShapes == 3 * 2
ShapeAt(j) ==
  LET shape == 1 + ((j - 1) % 3)
      from  == 1 + 5000 * ((j - 1) \div 3)
      k     == CHOOSE c \in from..(from + 4999) : ShapeHit(shape, c)
  IN  KItem("key.new", "shape", [secret |-> BytesToHex(ScalarOf(k))])

\* ---- signatures ----------------------------------------------------------------------
SignKeys == <<PadLeft(<<1>>, 32), PadLeft(<<2>>, 32), NMinus(1),
              HexToBytes("4f3edf983ac636a65a842ce7c78d9aa706d3b113bce9c46f30d7d21715b23b1d")>>
\* the field prime p = 2^256 - 2^32 - 977 (a natural confusion with the group order n)
FieldP == Rep(27, 255) \o <<254, 255, 255, 252, 47>>
Digests == <<Zeros(32), PadLeft(<<1>>, 32), NMinus(1), BnFixed(CurveN, 32), NPlus(1), Rep(32, 255), <<128>> \o Zeros(31),
             BnFixed(BnSub(FieldP, <<1>>), 32), FieldP, BnFixed(BnAdd(FieldP, <<1>>), 32), BnFixed(HalfN, 32)>>
NSignFixed == 4 * Len(Digests)
NSignRand  == IF Thorough THEN 11000 ELSE 700
SignAt(j) ==
  IF j <= NSignFixed THEN
    KItem("key.sign", "boundary", [secret |-> BytesToHex(SignKeys[1 + ((j - 1) % 4)]),
                                   digest |-> BytesToHex(Digests[1 + ((j - 1) \div 4)])])
  ELSE LET k == IF j % 5 = 0 THEN SignKeys[1 + (j % 4)]
                ELSE LET c == Prng(K("sk", <<j>>), 32) IN IF InScalarRange(c) THEN c ELSE PadLeft(<<7>>, 32)
       IN  KItem("key.sign", "random", [secret |-> BytesToHex(k), digest |-> BytesToHex(Prng(K("sd", <<j>>), 32))])

\* ---- signature text ---------------------------------------------------------------------
\* well-formed: printed by the specification itself from spec-made signatures
NSigGood == IF Thorough THEN 4000 ELSE 150
SigGoodAt(j) ==
  LET sig  == Sign(SignKeys[1 + (j % 4)], Prng(K("pg", <<j>>), 32))
      text == PrintSig([r |-> sig.r, s |-> sig.s, par |-> sig.par])
      mode == j % 4      \* 0: as printed, 1: without 0x, 2: upper-case digits (open), 3: surrounding blanks (open)
      body == SubSeq(text, 3, Len(text))
  IN  KItem("sig.parse", IF mode < 2 THEN "printed" ELSE "open_spelling",
            [text |-> Str(IF mode = 0 THEN text
                          ELSE IF mode = 1 THEN body
                          ELSE IF mode = 2 THEN <<48, 120>> \o [i \in 1..Len(body) |-> IF IsLowerHexCode(body[i]) THEN body[i] - 32 ELSE body[i]]
                          ELSE <<32>> \o text \o <<10>>)])
\* malformed
Good == [r |-> PadLeft(<<17>>, 32), s |-> PadLeft(<<34>>, 32), par |-> 0]
SigWith(r, s, v) == <<48, 120>> \o HexLower(r) \o HexLower(s) \o HexLower(<<v>>)
BadScalars == <<Zeros(32), BnFixed(CurveN, 32), NPlus(1), Rep(32, 255)>>
BoundaryOk == <<PadLeft(<<1>>, 32), NMinus(1)>>
NSigBad == 141 * 2 + 8 + 6 + 2 * Len(BadScalars) + 4
SigBadAt(j) ==
  LET full == SigWith(Good.r, Good.s, 27)
      body == SubSeq(full, 3, 132)
  IN  IF j <= 282 THEN          \* every length 0..140, with and without prefix
        LET len == (j - 1) \div 2
            digits == [i \in 1..len |-> body[1 + ((i - 1) % 130)]]
        IN  KItem("sig.parse", "length", [text |-> Str(IF j % 2 = 0 THEN <<48, 120>> \o digits ELSE digits)])
      ELSE IF j <= 290 THEN     \* a non-hex character in each of the four regions (prefix, r, s, v), two characters
        LET m == j - 283
            pos == <<1, 10, 80, 131>>[1 + (m % 4)]
            ch  == IF m < 4 THEN 103 ELSE 45
        IN  KItem("sig.parse", "nonhex", [text |-> Str([full EXCEPT ![pos + 1] = ch])])
      ELSE IF j <= 296 THEN     \* v values
        KItem("sig.parse", "v", [text |-> Str(SigWith(Good.r, Good.s, <<0, 1, 26, 29, 255, 28>>[j - 290]))])
      ELSE IF j <= 296 + 2 * Len(BadScalars) THEN
        LET m == j - 297
            b == BadScalars[1 + (m \div 2)]
        IN  KItem("sig.parse", "scalars", [text |-> Str(IF m % 2 = 0 THEN SigWith(b, Good.s, 27) ELSE SigWith(Good.r, b, 28))])
      ELSE
        LET m == j - 297 - 2 * Len(BadScalars)
            b == BoundaryOk[1 + (m \div 2)]
        IN  KItem("sig.parse", "scalars_ok", [text |-> Str(IF m % 2 = 0 THEN SigWith(b, Good.s, 27) ELSE SigWith(Good.r, b, 28))])
\* EVERY position of a printed signature (with and without the 0x prefix) replaced by each character of an alphabet
\* of characters that some number or text parser is lenient about: sign characters, digit separators, blanks,
\* neighbours of the hex ranges in ASCII, NUL, non-ASCII letters and non-ASCII decimal digits
MutChars == <<<<43>>, <<45>>, <<95>>, <<32>>, <<103>>, <<239, 188, 145>>,                      \* + - _ space g FULLWIDTH-1
              <<46>>, <<120>>, <<58>>, <<47>>, <<64>>, <<96>>, <<71>>, <<0>>, <<195, 169>>, <<217, 161>>, <<9>>, <<10>>>>
NMutChars == IF Thorough THEN Len(MutChars) ELSE 6
NSigMut == (132 + 130) * NMutChars
SigMutAt(j) ==
  LET c    == 1 + ((j - 1) % NMutChars)
      q    == (j - 1) \div NMutChars                     \* 0..261
      sig  == Sign(SignKeys[1 + (c % 4)], Prng(K("pm", <<c>>), 32))
      full == PrintSig([r |-> sig.r, s |-> sig.s, par |-> sig.par])
      text == IF q < 132 THEN full ELSE SubSeq(full, 3, 132)
      pos  == IF q < 132 THEN q + 1 ELSE q - 131
  IN  KItem("sig.parse", "mutate_every_position",
            [text |-> Utf8ToStr(SubSeq(text, 1, pos - 1) \o MutChars[c] \o SubSeq(text, pos + 1, Len(text)))])
\* bulk sweeps: 2^15 signatures per item over counter-generated digests, compared chunk-wise (4096) through hashes
\* with the specification's signatures (Ecdsa!BulkSignHash): 2^18 signatures per quick run, 2^24 per thorough run (VERIF_BULK=1024: 2^25)
\* (VERIF_BULK overrides the number of items)
NBulk == IF "VERIF_BULK" \in DOMAIN IOEnv THEN atoi(IOEnv.VERIF_BULK) ELSE IF Thorough THEN 512 ELSE 8
BulkAt(j) ==
  KItem("key.sign.bulk", "bulk",
        [secret |-> BytesToHex(IF j % 2 = 0 THEN SignKeys[4] ELSE Prng(K("bk", <<j>>), 31) \o <<1>>),
         seed |-> BytesToHex(K("bulk", <<j>>)), from |-> 32768 * j, count |-> 32768, chunk |-> 4096])

\* every character U+0001..U+00FF in the place of the first digit of r and of the last digit of v
NSigEveryChar == 2 * NTryChars
SigEveryCharAt(j) ==
  LET cp   == TryChar(1 + ((j - 1) % NTryChars))
      sig  == Sign(SignKeys[1 + (j % 4)], Prng(K("pe", <<j % 3>>), 32))
      full == PrintSig([r |-> sig.r, s |-> sig.s, par |-> sig.par])
      pos  == IF j <= NTryChars THEN 3 ELSE 132
  IN  KItem("sig.parse", "every_character",
            [text |-> Utf8ToStr(SubSeq(full, 1, pos - 1)) \o CpsToStr(<<cp>>) \o Utf8ToStr(SubSeq(full, pos + 1, Len(full)))])
=============================================================================
