------------------------------ MODULE Gen_C11 ------------------------------
(***************************************************************************)
(* Workload for C11: `sign transaction` over the configuration lattice     *)
(* kind x chain id x --allow-missing-relay-protection x --signature-only,  *)
(* run against the real binary.                                            *)
(***************************************************************************)
EXTENDS GenCli
MaxFit == BnSub(BnPow2(255), <<19>>)         \* largest c with 35 + 2c + 1 < 2^256
\* chain id choice: 0 absent, 1 null, otherwise a value
ChainVals == <<<<>>, <<1>>, <<1, 0, 0, 0, 0>>, <<128>> \o Zeros(7), Rep(8, 255), <<1>> \o Zeros(8),
               Prng(K("c11big", <<>>), 31), MaxFit, BnAdd(MaxFit, <<1>>), Rep(32, 255)>>
NChainChoices == 2 + Len(ChainVals)
NLattice == 3 * NChainChoices * 4 * 3
LatticeAt(j) ==
  LET kind  == Kinds[1 + ((j - 1) % 3)]
      ch    == 1 + (((j - 1) \div 3) % NChainChoices)
      allow == (((j - 1) \div (3 * NChainChoices)) % 2) = 1
      only  == (((j - 1) \div (6 * NChainChoices)) % 2) = 1
      body  == (j - 1) \div (12 * NChainChoices)
      base  == Default(kind, <<40, body, j % 3>>)
      f     == [base EXCEPT !["chainId"] = IF ch = 1 THEN Absent ELSE IF ch = 2 THEN NNull ELSE NHexQty(ChainVals[ch - 2]),
                            !["nonce"] = NHexQty(BnFromNat(j))]
      flags == (IF only THEN <<"signature_only">> ELSE <<>>) \o (IF allow THEN <<"allow_missing">> ELSE <<>>)
  IN  CItem("lattice", Cmd("sign", "transaction", PlainAcct(Mnemonics[1 + (j % 2)]), flags, "",
                           ChanNo(j), [doc |-> MkDoc(f)]))
\* hashing is never guarded
NHash == 3 * 4
HashAt(j) ==
  LET kind == Kinds[1 + ((j - 1) % 3)]
      ch   == (j - 1) \div 3
      base == Default(kind, <<41, j>>)
      f    == [base EXCEPT !["chainId"] = IF ch = 0 THEN Absent ELSE NHexQty(ChainVals[ch])]
  IN  CItem("hash", Cmd("hash", "transaction", NoAcct, <<>>, "", "file", [doc |-> MkDoc(f)]))
\* the guard lattice once more (first body only) under an ambient environment that names every option
NAmbient == 3 * NChainChoices * 4
AmbientAt(j) == LET it == LatticeAt(j) IN [it EXCEPT !.fam = "ambient_env", !.in = [it.in EXCEPT !.env = it.in.env @@ Ambient]]
\* chain ids at which v crosses an integer width (GenTx!VEdge), full output and --signature-only
NVw == 2 * NVWidth
VwAt(j) ==
  LET it == VWidthAt(1 + ((j - 1) % NVWidth))
  IN  CItem("v_width", Cmd("sign", "transaction", PlainAcct(Mn2), IF j > NVWidth THEN <<"signature_only">> ELSE <<>>, "",
                           ChanNo(j), [doc |-> it.in.doc]))
Count == NLattice + NHash + NAmbient + NVw
ItemAt(g) == IF g <= NLattice THEN LatticeAt(g) ELSE IF g <= NLattice + NHash THEN HashAt(g - NLattice)
             ELSE IF g <= NLattice + NHash + NAmbient THEN AmbientAt(g - NLattice - NHash) ELSE VwAt(g - NLattice - NHash - NAmbient)
Histories == 0
VARIABLE n
INSTANCE GenBase
=============================================================================
