------------------------------ MODULE Gen_C13 ------------------------------
(***************************************************************************)
(* Workload for C13: every numeric slot of the three transaction kinds x   *)
(* boundary integers x spellings, the malformed spellings, byte fields,    *)
(* addresses and storage keys.                                              *)
(***************************************************************************)
EXTENDS GenTx, Ecdsa

\* the numeric slots: (kind, key)
Slots == << <<"legacy", "nonce">>, <<"legacy", "gasPrice">>, <<"legacy", "gas">>, <<"legacy", "value">>, <<"legacy", "chainId">>,
            <<"2930", "chainId">>, <<"2930", "nonce">>, <<"2930", "gasPrice">>, <<"2930", "gas">>, <<"2930", "value">>,
            <<"1559", "chainId">>, <<"1559", "nonce">>, <<"1559", "maxPriorityFeePerGas">>, <<"1559", "maxFeePerGas">>,
            <<"1559", "gas">>, <<"1559", "value">> >>
Ints == <<<<>>, <<1>>, <<127>>, <<128>>, <<255>>, <<1, 0>>, BnSub(BnPow2(53), <<1>>), BnPow2(53), BnAdd(BnPow2(53), <<1>>),
          BnSub(BnPow2(64), <<1>>), BnPow2(64), BnPow2(128), BnPow2(255), BnSub(BnPow2(256), <<1>>),
          BnFromDec(<<1, 2, 3, 0, 0, 0>>), BnFromDec(<<9, 9, 9, 9, 9, 9, 9, 9, 9, 9, 9, 9, 9, 9, 9>>)>>
DecS(bn) == Utf8ToStr(DecCodes(BnToDec(bn)))
HexDigitsOf(bn, upper) ==
  LET hd == BnToHexDigits(bn) IN Utf8ToStr([i \in 1..Len(hd) |-> IF upper THEN HexCodeUpper(hd[i]) ELSE HexCodeLower(hd[i])])
\* spelling sp in 1..10
SpellInt(bn, sp) ==
  IF sp = 1 THEN NNum(DecS(bn))
  ELSE IF sp = 2 THEN NNum(DecS(bn) \o ".0")
  ELSE IF sp = 3 THEN NNum(DecS(bn) \o "e0")
  ELSE IF sp = 4 THEN NNum(DecS(bn) \o "0e-1")
  ELSE IF sp = 5 THEN NStr(DecS(bn))
  ELSE IF sp = 6 THEN NStr("0x" \o HexDigitsOf(bn, FALSE))
  ELSE IF sp = 7 THEN NStr("0x" \o HexDigitsOf(bn, TRUE))
  ELSE IF sp = 8 THEN NStr("00" \o DecS(bn))
  ELSE IF sp = 9 THEN NStr("0x000" \o HexDigitsOf(bn, FALSE))
  ELSE NNum(DecS(bn) \o ".000e+0")
NSpell == 10
\* thorough: the full cross product with the slots; quick: slots rotate
NIntDocs == Len(Ints) * NSpell * (IF Thorough THEN Len(Slots) ELSE 2)
IntDocAt(j) ==
  LET v    == Ints[1 + ((j - 1) % Len(Ints))]
      sp   == 1 + (((j - 1) \div Len(Ints)) % NSpell)
      sl   == Slots[1 + (IF Thorough THEN (j - 1) \div (Len(Ints) * NSpell) ELSE (j * 7 + (j - 1) \div (Len(Ints) * NSpell)) % Len(Slots))]
      base == Default(sl[1], <<30, j>>)
  IN  Item("ints", MkDoc([base EXCEPT ![sl[2]] = SpellInt(v, sp)]), j)

Two256 == BnPow2(256)
\* DECIMAL NEIGHBOURS OF SHORT NUMBERS: m * 10^k + d for small d - JSON literals (plain, ".0", exponent form) that lie
\* within half an ulp of a double whose own decimal expansion is short.  A reader that goes through binary64 and then
\* trusts "few significant digits" signs m * 10^k instead of the number written (1000 ETH + 1 wei -> 1000 ETH).  The
\* literal is taken at its exact value or refused (an open spelling above 2^53), never at the neighbour.
Pow10(k) == BnFromDec(<<1>> \o Zeros(k))
Mants == <<<<1>>, <<1, 3, 3, 7>>, <<9>>, <<2, 5>>>>
NbKs == IF Thorough THEN [i \in 1..61 |-> 15 + i] ELSE <<16, 17, 18, 19, 20, 21, 22, 23, 24, 27, 30, 38, 45, 60, 70, 76>>
NbDs == <<1, 2, 7, 1000>>
NNeighbours == Len(NbKs) * Len(Mants) * Len(NbDs) * 2
NeighbourAt(j) ==
  LET q  == j - 1
      k  == NbKs[1 + (q % Len(NbKs))]
      m  == Mants[1 + ((q \div Len(NbKs)) % Len(Mants))]
      d  == NbDs[1 + ((q \div (Len(NbKs) * Len(Mants))) % Len(NbDs))]
      up == (q \div (Len(NbKs) * Len(Mants) * Len(NbDs))) = 0
      rnd == BnFromDec(m \o Zeros(k - Len(m) + 1))                                   \* m * 10^(k - len(m) + 1): k + 1 digits
      v  == IF up THEN BnAdd(rnd, BnFromNat(d)) ELSE BnSub(rnd, BnFromNat(d))
      sl == Slots[1 + ((j * 5) % Len(Slots))]
      base == Default(sl[1], <<36, j>>)
      lit == IF j % 3 = 0 THEN DecS(v) \o ".0" ELSE IF j % 3 = 1 THEN DecS(v) ELSE DecS(v) \o "e0"
  IN  Item("decimal_neighbours", MkDoc([base EXCEPT ![sl[2]] = NNum(lit)]), j)
Malformed == <<
  NNum("-1"), NNum("-1.0"), NNum("-1e0"), NNum("-255"), NStr("-1"), NStr("-0x1"), NNum("-0"), NNum("-0.0"), NStr("-0"),
  NNum("1.5"), NNum("0.5"), NNum("1e-1"), NNum("15e-1"), NNum("1e400"), NNum("1e-400"),
  NNum(DecS(Two256)), NStr(DecS(Two256)), NStr("0x1" \o HexDigitsOf(Zeros(32), FALSE) \o HexDigitsOf(Zeros(31), FALSE)),
  NNum(DecS(BnAdd(Two256, <<1>>))), NStr(DecS(BnAdd(Two256, <<1>>))),
  NStr(""), NStr(" 1"), NStr("1 "), NStr("0x"), NStr("0xg"), NStr("1_000"), NStr("1,000"), NStr("1.0"), NStr("1e3"), NStr("abc"),
  NNull, NBool(TRUE), NBool(FALSE), NArr(<<>>), NArr(<<NNum("1")>>), NObj(<<>>),
  NStr("0b101"), NStr("0o17"), NStr("+5"), NStr("0X1F"), NStr("0x1F"), 
  NNum("1.0000000000000001"), NNum("4503599627370497.5"), NNum("9007199254740993"), NNum("18446744073709551615"),
  NNum("18446744073709551616"), NNum("1e16"), NNum("123456789012345678"), NNum("0.1e1"), NNum("100e-2"), NNum("1E2"),
  NNum("12300e-2"), NNum("0e0"), NNum("0.0"), NNum("2.000000000000000000000000000001")
>>
NMalformed == Len(Malformed) * 3
MalformedAt(j) ==
  LET m  == Malformed[1 + ((j - 1) % Len(Malformed))]
      sl == Slots[1 + ((j * 5 + (j - 1) \div Len(Malformed)) % Len(Slots))]
      base == Default(sl[1], <<31, j>>)
  IN  Item("malformed", MkDoc([base EXCEPT ![sl[2]] = m]), j)

\* byte fields, addresses, storage keys
A20 == Prng(K("c13addr", <<>>), 20)
S32 == Prng(K("c13slot", <<>>), 32)
UpperHex(b) == "0x" \o Utf8ToStr([i \in 1..(2 * Len(b)) |-> LET c == HexLower(b)[i] IN IF IsLowerHexCode(c) THEN c - 32 ELSE c])
Checksummed(b) == Utf8ToStr(Eip55(b))
FlipCase(str) == LET cs == StrToUtf8(str)
                     p == CHOOSE i \in 3..Len(cs) : cs[i] >= 65 /\ \A q \in 3..(i - 1) : cs[q] < 65
                 IN  Utf8ToStr([cs EXCEPT ![p] = IF cs[p] >= 97 THEN cs[p] - 32 ELSE cs[p] + 32])
DataVals == <<NStr("0x"), NStr("0x0"), NStr("00"), NStr("0xzz"), NNum("0"), NStr("0xAB"), NStr("0xab"), NStr("ab"), NNull,
              NStr("0x "), NStr("0xabc"), NStr("0X00"), NArr(<<>>), NStr("0x0x"), NStr("0x0xab"), NStr("0x0x0xabcd"), NStr(" 0xab"),
              NStr("0xab\n"), NStr("0x0Xab"), NStr("x0ab")>>
ToVals == <<NHexBytes(SubSeq(A20, 1, 19)), NHexBytes(A20), NHexBytes(A20 \o <<1>>), NStr(BytesToHex(A20)), NStr("0x0x" \o BytesToHex(A20)),
            NStr(UpperHex(A20)), NStr(Checksummed(A20)), NStr(FlipCase(Checksummed(A20))), NStr("0x"), NStr(""), NNum("0"),
            NBool(FALSE), NStr("0x" \o BytesToHex(A20) \o " "), NArr(<<>>)>>
SlotVals == <<NHexBytes(SubSeq(S32, 1, 31)), NHexBytes(S32), NHexBytes(S32 \o <<1>>), NStr(BytesToHex(S32)), NStr(UpperHex(S32)),
              NNum("1"), NStr("0x1"), NNull, NStr("0x0x" \o BytesToHex(S32)), NStr("0x0x0x" \o BytesToHex(S32)),
              NStr("0x0x" \o BytesToHex(SubSeq(S32, 1, 31))), NStr("0x" \o BytesToHex(S32) \o " "), NStr("0x"), NStr("")>>
NFields == 3 * (Len(DataVals) + Len(ToVals)) + 2 * Len(SlotVals) + 2 * 4
FieldAt(j) ==
  LET nd == 3 * Len(DataVals)
      nt == 3 * Len(ToVals)
      ns == 2 * Len(SlotVals)
  IN  IF j <= nd THEN
        LET kind == Kinds[1 + ((j - 1) % 3)] IN
        Item("data", MkDoc([Default(kind, <<32, j>>) EXCEPT !["data"] = DataVals[1 + ((j - 1) \div 3)]]), j)
      ELSE IF j <= nd + nt THEN
        LET q == j - nd  kind == Kinds[1 + ((q - 1) % 3)] IN
        Item("to", MkDoc([Default(kind, <<33, j>>) EXCEPT !["to"] = ToVals[1 + ((q - 1) \div 3)]]), j)
      ELSE IF j <= nd + nt + ns THEN
        LET q == j - nd - nt  kind == Kinds[2 + ((q - 1) % 2)] IN
        Item("slot", MkDoc([Default(kind, <<34, j>>) EXCEPT !["accessList"] =
               NArr(<<NArr(<<NHexBytes(A20), NArr(<<NHexBytes(S32), SlotVals[1 + ((q - 1) \div 2)]>>)>>)>>)]), j)
      ELSE
        \* access list entries of the wrong shape
        LET q == j - nd - nt - ns  kind == Kinds[2 + ((q - 1) % 2)]
            al == <<NArr(<<NArr(<<NHexBytes(A20)>>)>>),                                       \* entry with one element
                    NArr(<<NArr(<<NHexBytes(A20), NArr(<<>>), NArr(<<>>)>>)>>),               \* three elements
                    NArr(<<NArr(<<NArr(<<>>), NHexBytes(A20)>>)>>),                           \* swapped
                    NStr("0x")>>[1 + ((q - 1) \div 2)]
        IN  Item("albad", MkDoc([Default(kind, <<35, j>>) EXCEPT !["accessList"] = al]), j)

\* chainId: null on a legacy document means "absent"
NullChainAt(j) ==
  Item("nullchain", MkDoc([Default("legacy", <<36, j>>) EXCEPT !["chainId"] = IF j = 1 THEN NNull ELSE Absent]), j)

\* every character U+0001..U+00FF in the place of the first digit of a hexadecimal and of a decimal quantity string
NEveryChar == 2 * NTryChars
EveryCharAt(j) ==
  LET cp == TryChar(1 + ((j - 1) % NTryChars))
      sl == Slots[1 + (j % Len(Slots))]
      base == Default(sl[1], <<33, j % 5>>)
      txt == IF j <= NTryChars THEN "0x" \o CpsToStr(<<cp>>) \o "1" ELSE CpsToStr(<<cp>>) \o "1"
  IN  Item("every_character", MkDoc([base EXCEPT ![sl[2]] = NStr(txt)]), j)
O1 == NIntDocs
O2 == O1 + NMalformed
O3 == O2 + NFields
O4 == O3 + 2
O5 == O4 + NEveryChar
O6 == O5 + NBadPresence
O7 == O6 + NDup
Count == O7 + NNeighbours
ItemAt(g) ==
  IF g <= O1 THEN IntDocAt(g)
  ELSE IF g <= O2 THEN MalformedAt(g - O1)
  ELSE IF g <= O3 THEN FieldAt(g - O2)
  ELSE IF g <= O4 THEN NullChainAt(g - O3)
  ELSE IF g <= O5 THEN EveryCharAt(g - O4)
  ELSE IF g <= O6 THEN BadPresenceAt(g - O5)
  ELSE IF g <= O7 THEN DupAt(g - O6)
  ELSE NeighbourAt(g - O7)
Histories == IF "VERIF_TIER" \in DOMAIN IOEnv /\ IOEnv.VERIF_TIER = "thorough" THEN 300 ELSE 40
VARIABLE n
INSTANCE GenBase
=============================================================================
