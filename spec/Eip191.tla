-------------------------------- MODULE Eip191 --------------------------------
(* EIP-191 personal message digest: keccak256(0x19 "Ethereum Signed Message:\n" *)
(* DecimalAscii(len(m)) m).  Anchor: src/message.rs.                            *)
EXTENDS Bytes, Prim
Eip191Prefix == <<25>> \o <<69,116,104,101,114,101,117,109,32,83,105,103,110,101,100,32,77,101,115,115,97,103,101,58,10>>
\* decimal ASCII of a length (a TLC natural)
DecimalAscii(n) == NatDecCodes(n)
PersonalDigest(m) == Keccak256(Eip191Prefix \o DecimalAscii(Len(m)) \o m)
\* the digest of the message <<b, ..., b>> of n bytes (= PersonalDigest([i \in 1..n |-> b]), evaluated without the sequence)
PersonalDigestRep(b, n) == Keccak256Rep(Eip191Prefix \o DecimalAscii(n), b, n)
=============================================================================
