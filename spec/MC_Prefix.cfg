SPECIFICATION Spec
INVARIANT Grammar
CHECK_DEADLOCK FALSE
