SPECIFICATION Spec
CONSTANT NW = 3
INVARIANT EmitInv
CHECK_DEADLOCK FALSE
