------------------------------ MODULE Gen_C15 ------------------------------
(* Workload for C15 (library part): printed signatures parsed back, malformed signature text. *)
EXTENDS GenKeys
O1 == 0 + (NSigGood)
O2 == O1 + (NSigBad)
O3 == O2 + (NSignFixed+60)
O4 == O3 + NSigMut
Count == O4 + NSigEveryChar
ItemAt(g) ==
  IF g <= O1 THEN SigGoodAt(g - 0)
  ELSE IF g <= O2 THEN SigBadAt(g - O1)
  ELSE IF g <= O3 THEN SignAt(g - O2)
  ELSE IF g <= O4 THEN SigMutAt(g - O3)
  ELSE SigEveryCharAt(g - O4)
Histories == IF "VERIF_TIER" \in DOMAIN IOEnv /\ IOEnv.VERIF_TIER = "thorough" THEN 300 ELSE 40
VARIABLE n
INSTANCE GenBase
=============================================================================
