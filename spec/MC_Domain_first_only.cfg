SPECIFICATION Spec
CONSTANT Variant = "first_only"
INVARIANT ScanEqualsRule
CHECK_DEADLOCK FALSE
