------------------------------ MODULE MC_Bytes ------------------------------
(***************************************************************************)
(* Limb arithmetic of Bytes.tla equals natural-number arithmetic.          *)
(* Exhaustive for all pairs of values below 2^17 in a small window         *)
(* structure: TLC enumerates (a, b) over boundary-rich sets and compares   *)
(* with TLC's own integer arithmetic (all values < 2^31).                  *)
(***************************************************************************)
EXTENDS Bytes, TLC, FiniteSets, IOUtils

Thorough == "VERIF_TIER" \in DOMAIN IOEnv /\ IOEnv.VERIF_TIER = "thorough"

Vals == IF Thorough
        THEN (0..300) \cup (65270..65800) \cup {16777215, 16777216, 16777217, 1000000, 99999, 100000}
        ELSE (0..20) \cup (250..260) \cup (65530..65540) \cup {9999, 10000, 16777215, 16777216, 1000000}
Mods == {2, 3, 255, 256, 257, 65521, 65536, 65537, 1000003}

VARIABLES a, b
\* b = -1: not yet chosen (two levels so that TLC's workers share the enumeration)
Init == a \in Vals /\ b = -1
Next == b = -1 /\ b' \in Vals /\ UNCHANGED a
Spec == Init /\ [][Next]_<<a, b>>

A == BnFromNat(a)
Bb == BnFromNat(b)
Arith == b >= 0 =>
  /\ BnToNat(A) = a
  /\ BnToNat(BnAdd(A, Bb)) = a + b
  /\ (a >= b => BnToNat(BnSub(A, Bb)) = a - b)
  /\ BnCmp(A, Bb) = (IF a < b THEN -1 ELSE IF a > b THEN 1 ELSE 0)
  /\ BnCmp(<<0>> \o A, Bb) = BnCmp(A, Bb)
  /\ (b < 120 /\ a < 70000 => BnToNat(BnMulAddSmall(A, b, a % 7)) = a * b + (a % 7))
  /\ (b > 0 => BnDivModSmall(A, b) = <<BnFromNat(a \div b), a % b>>)
  /\ BnFromDec(BnToDec(A)) = A
  /\ BnFromHexDigits(BnToHexDigits(A)) = A
  /\ BnBitLen(A) = (CHOOSE k \in 0..31 : (k = 0 /\ a = 0) \/ (k > 0 /\ 2 ^ (k - 1) <= a /\ (k = 31 \/ a < 2 ^ k)))
  /\ BnIsOdd(A) = (a % 2 = 1)
AddMod == b >= 0 =>
  \A m \in Mods : (a < m /\ b < m) => BnToNat(BnAddMod(A, Bb, BnFromNat(m))) = (a + b) % m
=============================================================================
