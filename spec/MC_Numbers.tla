----------------------------- MODULE MC_Numbers -----------------------------
(***************************************************************************)
(* The number denotation of Numbers.tla over EVERY string up to length     *)
(* MaxLen over {- 0 1 9 . e +}:                                            *)
(*  - DenoteJsonNumber is total (class in std/alt/bad/huge)                *)
(*  - a plain integer literal denotes its digits; appending ".0", "e0",    *)
(*    "0e-1", ".00e+0" never changes sign and magnitude                    *)
(*  - <int>e<k> denotes int * 10^k (recomputed by repeated multiplication) *)
(*  - strings outside the JSON number grammar (leading zero, bare sign,    *)
(*    empty fraction/exponent, leading '+') are "bad"                      *)
(*  - fractional values are "bad", negative zero is never "std"            *)
(* and of DenoteString on the same strings: a decimal digit string denotes *)
(* its digits; anything with '.', 'e' or an inner sign is "bad".           *)
(***************************************************************************)
EXTENDS Numbers, TLC, IOUtils

Thorough == "VERIF_TIER" \in DOMAIN IOEnv /\ IOEnv.VERIF_TIER = "thorough"
MaxLen == IF Thorough THEN 7 ELSE 6
Alphabet == {45, 48, 49, 57, 46, 101, 43}

VARIABLE s
Init == s = <<>>
Next == Len(s) < MaxLen /\ \E c \in Alphabet : s' = Append(s, c)
Spec == Init /\ [][Next]_s

D(x) == DenoteJsonNumber(x)
Same(a, b) == a.c \in {"std", "alt"} /\ b.c \in {"std", "alt"} /\ a.neg = b.neg /\ a.mag = b.mag

IsPlainInt(x) ==
  LET body == IF Len(x) > 0 /\ x[1] = 45 THEN Tail(x) ELSE x
  IN  Len(body) > 0 /\ AllDigit(body) /\ (Len(body) = 1 \/ body[1] # 48)

RECURSIVE Times10(_, _)
Times10(b, k) == IF k = 0 THEN b ELSE Times10(BnMulAddSmall(b, 10, 0), k - 1)

Total == D(s).c \in {"std", "alt", "bad", "huge"}

PlainIntegers ==
  IsPlainInt(s) =>
    LET neg  == s[1] = 45
        body == IF neg THEN Tail(s) ELSE s
        d    == D(s)
    IN  /\ d.c \in {"std", "alt"} /\ d.mag = BnFromDec(DecVals(body))
        /\ d.neg = (neg /\ ~BnIsZero(d.mag))
        /\ (neg /\ BnIsZero(d.mag) => d.c = "alt")
        /\ Same(D(s \o <<46, 48>>), d) /\ Same(D(s \o <<101, 48>>), d)
        /\ (body # <<48>> => Same(D(s \o <<48, 101, 45, 49>>), d)) /\ Same(D(s \o <<46, 48, 48, 101, 43, 48>>), d)
        /\ \A k \in 0..3 : Same(D(s \o <<101, 48 + k>>), [d EXCEPT !.mag = BnNorm(Times10(d.mag, k))])
        \* one decimal place: x.1 and x.9 are fractional, xe-1 is integral only when x ends in 0
        /\ D(s \o <<46, 49>>).c = "bad" /\ D(s \o <<46, 57>>).c = "bad"
        /\ (D(s \o <<101, 45, 49>>).c # "bad") = (body[Len(body)] = 48)

Ungrammatical ==
  /\ (Len(s) >= 2 /\ s[1] = 48 /\ IsDigitCode(s[2]) => D(s).c = "bad")                 \* leading zero
  /\ (Len(s) >= 3 /\ s[1] = 45 /\ s[2] = 48 /\ IsDigitCode(s[3]) => D(s).c = "bad")
  /\ (Len(s) >= 1 /\ s[1] \in {43, 46, 101} => D(s).c = "bad")
  /\ (s = <<>> \/ s = <<45>> => D(s).c = "bad")
  /\ (Len(s) >= 1 /\ s[Len(s)] \in {46, 101, 43, 45} => D(s).c = "bad")                  \* nothing after . e + -
  /\ ((\E i \in 1..(Len(s) - 1) : s[i] = 46 /\ ~IsDigitCode(s[i + 1])) => D(s).c = "bad")
  /\ ((\E i, j \in 1..Len(s) : i < j /\ s[i] = 101 /\ s[j] \in {46, 101}) => D(s).c = "bad")

Strings ==
  LET d == DenoteString(s) IN
  /\ d.c \in {"std", "alt", "bad", "huge"}
  /\ (Len(s) > 0 /\ AllDigit(s) => d.c \in {"std", "alt"} /\ d.mag = BnFromDec(DecVals(s)) /\ ~d.neg
                                   /\ (d.c = "std") = (Len(s) = 1 \/ s[1] # 48))
  /\ ((\E i \in 1..Len(s) : s[i] \in {46, 101}) => d.c = "bad")
  /\ ((\E i \in 2..Len(s) : s[i] \in {43, 45}) => d.c = "bad")

\* spot values around the big boundaries (constant level)
Dec(str) == DenoteJsonNumber(StrToUtf8(str))
ASSUME Dec("9007199254740992").c = "std" /\ Dec("9007199254740993").c = "alt"
ASSUME Dec("9007199254740992.0").c = "alt" /\ Dec("90071992547409.0").c = "std" /\ Dec("900719925474099.0").c = "alt"
ASSUME Dec("1e77").c = "alt" /\ Dec("1e78").c = "huge" /\ Dec("1e79").c = "huge" /\ Dec("1e400").c = "huge" /\ Dec("1e99999").c = "huge"
ASSUME Dec("1.0000000000000001").c = "bad" /\ Dec("4503599627370497.5").c = "bad" /\ Dec("1e-99999").c = "bad"
ASSUME Dec("0e99999").c = "alt" /\ Dec("0.000").c = "std" /\ Dec("-0.0").c = "alt"
ASSUME Dec("115792089237316195423570985008687907853269984665640564039457584007913129639936").mag = BnPow2(256)
ASSUME ClassUint([k |-> "num", v |-> "115792089237316195423570985008687907853269984665640564039457584007913129639935"], 256).c = "either"
ASSUME ClassUint([k |-> "num", v |-> "115792089237316195423570985008687907853269984665640564039457584007913129639936"], 256).c = "reject"
ASSUME ClassUint([k |-> "str", v |-> "0xffffffffffffffffffffffffffffffffffffffffffffffffffffffffffffffff"], 256).c = "accept"
ASSUME ClassUint([k |-> "str", v |-> "0x10000000000000000000000000000000000000000000000000000000000000000"], 256).c = "reject"
ASSUME ClassUint([k |-> "str", v |-> "-1"], 256).c = "reject" /\ ClassUint([k |-> "num", v |-> "-1"], 256).why = "negative"
ASSUME ClassInt([k |-> "str", v |-> "-128"], 8).c = "accept" /\ ClassInt([k |-> "str", v |-> "-129"], 8).c = "reject"
ASSUME ClassInt([k |-> "num", v |-> "127"], 8).c = "accept" /\ ClassInt([k |-> "num", v |-> "128"], 8).c = "reject"
ASSUME ClassInt([k |-> "str", v |-> "-0x80"], 8).c = "either" /\ ClassUint([k |-> "str", v |-> "0X1f"], 8).c = "either"
ASSUME ClassUint([k |-> "str", v |-> "0b101"], 8).v = <<5>> /\ ClassUint([k |-> "str", v |-> "0o17"], 8).v = <<15>>
ASSUME ClassUint([k |-> "str", v |-> ""], 8).c = "reject" /\ ClassUint([k |-> "str", v |-> "0x"], 8).c = "reject"
ASSUME ClassUint([k |-> "str", v |-> " 1"], 8).c = "reject" /\ ClassUint([k |-> "str", v |-> "1_000"], 16).c = "reject"
ASSUME ClassUint([k |-> "bool", v |-> TRUE], 8).c = "reject" /\ ClassUint([k |-> "null"], 8).c = "reject"
=============================================================================
