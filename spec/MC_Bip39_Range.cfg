SPECIFICATION Spec
CONSTANT Table <- TableRange
INVARIANT LengthTable
INVARIANT NoAcceptOutsideStandard
INVARIANT NeverOutOfBounds
INVARIANT UnpackCorrect
INVARIANT PackCorrect
CHECK_DEADLOCK FALSE
