----------------------------- MODULE JudgeCrash -----------------------------
(***************************************************************************)
(* Trace validation for C17 only: the specification has no crash           *)
(* transition.  Every library call ends in Ok or Err, every pipeline of    *)
(* Wallet.tla in printed / failed / open.  An event whose observed outcome *)
(* is a panic, exit status 101, a signal or a timeout is a deviation,      *)
(* whatever its functional verdict; a CLI error must carry a message.      *)
(* Nothing else is judged here, so the whole union of the workloads can be *)
(* validated cheaply.                                                      *)
(***************************************************************************)
EXTENDS Naturals, Sequences, FiniteSets, HdwIO, Json, IOUtils, TLC

Rec == ndJsonDeserialize(IOEnv.HDW_TRACE)
VARIABLE l
Has(r, f) == f \in DOMAIN r
D(props, reason, detail) == [props |-> props, reason |-> reason, detail |-> detail]
IsCli(e) == e.op \in {"cli", "cli.new"}
\* a vanity search for a long prefix is exponential by design: the termination clause covers <= 3 digits
LongSearch(e) == e.op = "cli.new" /\ Has(e.in, "new") /\ e.in.new.prefix # "" /\ Has(e.in, "long_search")
Judge(e) ==
  LET o == e.out IN
  IF Has(o, "skip") THEN [cls |-> "skip", devs |-> {}]
  ELSE IF IsCli(e) THEN
    [cls |-> IF o.timeout \/ o.status = 101 \/ o.signal # 0 THEN "crash" ELSE IF o.status = 0 THEN "ok" ELSE "err",
     devs |-> IF o.timeout THEN (IF LongSearch(e) THEN {} ELSE {D({"C17"}, "cli_timeout", "")})
              ELSE IF o.status = 101 THEN {D({"C17"}, "cli_panic", o.stderr_head)}
              ELSE IF o.signal # 0 THEN {D({"C17"}, "cli_signal", ToString(o.signal))}
              ELSE IF o.status # 0 /\ o.stderr_len = 0 THEN {D({"C17"}, "cli_error_without_message", "")}
              ELSE {}]
  ELSE
    [cls |-> IF Has(o, "panic") \/ Has(o, "timeout") \/ Has(o, "abort") THEN "crash" ELSE IF Has(o, "ok") THEN "ok" ELSE "err",
     devs |-> IF Has(o, "panic") THEN {D({"C17"}, "panic", o.panic)}
              ELSE IF Has(o, "timeout") THEN {D({"C17"}, "timeout", "")}
              ELSE IF Has(o, "abort") THEN {D({"C17"}, "abort", o.abort)}      \* the worker process died (signal, abort)
              ELSE {}]
Init == l = 1
Next ==
  /\ l <= Len(Rec)
  /\ LET e == Rec[l]  j == Judge(e)
     IN  /\ Emit("cls", [i |-> e.i, op |-> e.op, cls |-> j.cls, ndev |-> Cardinality(j.devs)])
         /\ \A d \in j.devs : Emit("dev", [i |-> e.i, op |-> e.op, props |-> d.props, reason |-> d.reason, detail |-> d.detail])
  /\ l' = l + 1
Spec == Init /\ [][Next]_l
TraceAccepted ==
  \/ TLCGet("stats").diameter = Len(Rec) + 1
  \/ Print(<<"TRACE NOT ACCEPTED: first unmatched event", TLCGet("stats").diameter, Len(Rec)>>, FALSE)
=============================================================================
