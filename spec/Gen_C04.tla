------------------------------ MODULE Gen_C04 ------------------------------
(* Workload for C04: secrets of every length 0..64, boundary and PRNG scalars. *)
EXTENDS GenKeys
O1 == 0 + (NKeyLens)
O2 == O1 + (Len(Scalars)+NKeyRand)
Count == O2
ItemAt(g) ==
  IF g <= O1 THEN KeyLenAt(g - 0)
  ELSE KeyAt(g - O1)
VARIABLE n
INSTANCE GenBase
=============================================================================
