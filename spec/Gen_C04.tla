------------------------------ MODULE Gen_C04 ------------------------------
(* Workload for C04: secrets of every length 0..64, boundary and PRNG scalars. *)
EXTENDS GenKeys
O1 == 0 + (NKeyLens)
O2 == O1 + (Len(Scalars)+NKeyRand)
O3 == O2 + (NShapes)
O4 == O3 + NKeyEnc
O5 == O4 + NRelKeys
Count == O5 + NTwinHist
ItemAt(g) ==
  IF g <= O1 THEN KeyLenAt(g - 0)
  ELSE IF g <= O2 THEN KeyAt(g - O1)
  ELSE IF g <= O3 THEN ShapeAt(g - O2)
  ELSE IF g <= O4 THEN KeyEncAt(g - O3)
  ELSE IF g <= O5 THEN RelKeysAt(g - O4)
  ELSE TwinKeyAt(2 * (g - O5))
Histories == IF "VERIF_TIER" \in DOMAIN IOEnv /\ IOEnv.VERIF_TIER = "thorough" THEN 300 ELSE 40
VARIABLE n
INSTANCE GenBase
=============================================================================
