------------------------------ MODULE Numbers ------------------------------
(***************************************************************************)
(* Exact denotation of number spellings in JSON documents: JSON number     *)
(* literals (sign, integer part, fraction, exponent) and numeric strings   *)
(* (decimal, 0x hexadecimal, and the non-standard spellings the property   *)
(* leaves open).  Everything is computed on digit strings / byte limbs:    *)
(* no floating point, no 32-bit overflow.                                  *)
(*                                                                         *)
(* A document node is a tagged record (see executor/src/doc.rs):           *)
(*   [k |-> "num", v |-> "<literal text>"]  [k |-> "str", v |-> "<text>"]   *)
(*   [k |-> "bool", v |-> b] [k |-> "null"] [k |-> "arr", v |-> <<..>>]     *)
(*   [k |-> "obj", v |-> << <<key, node>>, .. >>]                           *)
(*                                                                         *)
(* Denote(node) = [c, neg, mag] with                                        *)
(*   c = "std"   a standard spelling of the integer (-1)^neg * mag          *)
(*   c = "alt"   a spelling the property leaves open, of that integer       *)
(*   c = "bad"   not an integer: fractional, malformed, wrong JSON kind     *)
(*   c = "huge"  an integer of more than 78 decimal digits (>= 2^256)       *)
(* Anchors: ethnum::serde::permissive as used by src/transaction/*.rs and  *)
(* src/typeddata.rs; src/serialization.rs.                                  *)
(***************************************************************************)
EXTENDS Bytes, Prim, HdwIO

BadWhy(why) == [c |-> "bad", neg |-> FALSE, mag |-> <<>>, why |-> why]
Bad   == BadWhy("malformed")
Huge(neg) == [c |-> "huge", neg |-> neg, mag |-> <<>>, why |-> "too_large"]
MkInt(c, neg, mag) == [c |-> c, neg |-> neg /\ ~BnIsZero(mag), mag |-> BnNorm(mag), why |-> ""]

RECURSIVE DigitRunEnd(_, _)
DigitRunEnd(cs, p) == IF p <= Len(cs) /\ IsDigitCode(cs[p]) THEN DigitRunEnd(cs, p + 1) ELSE p

RECURSIVE StripTrailingZeros(_)
StripTrailingZeros(ds) ==
  IF Len(ds) > 0 /\ ds[Len(ds)] = 0 THEN StripTrailingZeros(SubSeq(ds, 1, Len(ds) - 1)) ELSE ds
StripLeadingZeroDigits(ds) == SubSeq(ds, FirstNonZero(ds, 1), Len(ds))

Two53 == <<32, 0, 0, 0, 0, 0, 0>>      \* 2^53

\* ---- JSON number literal (ASCII codes) ----------------------------------
DenoteJsonNumber(cs) ==
  LET neg    == Len(cs) >= 1 /\ cs[1] = 45
      p0     == IF neg THEN 2 ELSE 1
      p1     == DigitRunEnd(cs, p0)
      intOk  == p1 > p0 /\ (p1 - p0 = 1 \/ cs[p0] # 48)
      hasFrac == p1 <= Len(cs) /\ cs[p1] = 46
      p2     == IF hasFrac THEN DigitRunEnd(cs, p1 + 1) ELSE p1
      fracOk == ~hasFrac \/ p2 > p1 + 1
      hasExp == p2 <= Len(cs) /\ cs[p2] \in {101, 69}
      hasSign == hasExp /\ p2 + 1 <= Len(cs) /\ cs[p2 + 1] \in {43, 45}
      expNeg == hasSign /\ cs[p2 + 1] = 45
      p3     == IF hasSign THEN p2 + 2 ELSE IF hasExp THEN p2 + 1 ELSE p2
      p4     == IF hasExp THEN DigitRunEnd(cs, p3) ELSE p2
      expOk  == ~hasExp \/ p4 > p3
      wellFormed == intOk /\ fracOk /\ expOk /\ p4 = Len(cs) + 1
  IN
  IF ~wellFormed THEN Bad
  ELSE
  LET I  == DecVals(SubSeq(cs, p0, p1 - 1))
      F  == IF hasFrac THEN DecVals(SubSeq(cs, p1 + 1, p2 - 1)) ELSE <<>>
      Ed == IF hasExp THEN StripLeadingZeroDigits(DecVals(SubSeq(cs, p3, p4 - 1))) ELSE <<>>
      M0 == StripLeadingZeroDigits(I \o F)
      M  == StripTrailingZeros(M0)
      t  == Len(M0) - Len(M)
      plain == ~hasFrac /\ ~hasExp
  IN
  IF M = <<>> THEN
       \* zero, however spelled; "-0" and 0e999 are left open
       MkInt(IF neg \/ Len(Ed) > 2 THEN "alt" ELSE "std", FALSE, <<>>)
  \* A fractional literal is "bad" with why = "fraction"; when it carries more than 15 significant digits or
  \* a decimal exponent below -300 (more than a binary64 float resolves) why = "fraction_beyond_f64_precision":
  \* a classification of the INPUT, used to tell the two findings apart.
  ELSE IF Len(Ed) > 4 THEN (IF expNeg THEN BadWhy("fraction_beyond_f64_precision") ELSE Huge(neg))
  ELSE
  LET E  == BnToNat(BnFromDec(Ed))
      e  == (IF expNeg THEN 0 - E ELSE E) - Len(F) + t        \* value = M * 10^e
  IN
  IF e < 0 THEN BadWhy(IF Len(M) > 15 \/ e < 0 - 300 THEN "fraction_beyond_f64_precision" ELSE "fraction")
  ELSE IF Len(M) + e > 78 THEN Huge(neg)
  ELSE
  LET mag == BnFromDec(M \o Zeros(e))
      \* must-accept float/exponent forms: at most 15 digits written and a small exponent (any
      \* binary64-based reader is exact there); everything else integral is an open spelling
      std == IF plain THEN BnLe(mag, Two53)
             ELSE Len(I \o F) <= 15 /\ BnLt(mag, Two53) /\ E <= 22
  IN  MkInt(IF std THEN "std" ELSE "alt", neg, mag)

\* ---- numeric strings (ASCII / UTF-8 codes) -------------------------------
AllIn(cs, lo, hi) == \A i \in 1..Len(cs) : cs[i] >= lo /\ cs[i] <= hi

RECURSIVE FromRadixGo(_, _, _, _)
FromRadixGo(vs, radix, i, acc) ==
  IF i > Len(vs) THEN acc ELSE FromRadixGo(vs, radix, i + 1, BnMulAddSmall(acc, radix, vs[i]))

\* unsigned body: digits, 0x.., 0X.., 0b.., 0o..
DenoteUnsignedBody(cs, neg, alt) ==
  LET canonicalDigits(ds) == Len(ds) = 1 \/ ds[1] # 48
      cls(ok) == IF ok /\ ~alt THEN "std" ELSE "alt"
  IN
  IF cs = <<>> THEN Bad
  ELSE IF AllDigit(cs) THEN
    LET ds == StripLeadingZeroDigits(DecVals(cs))
    IN  IF Len(ds) > 78 THEN Huge(neg) ELSE MkInt(cls(canonicalDigits(cs)), neg, BnFromDec(ds))
  ELSE IF Len(cs) >= 3 /\ cs[1] = 48 /\ cs[2] \in {120, 88} /\ AllHex(SubSeq(cs, 3, Len(cs))) THEN
    LET body == SubSeq(cs, 3, Len(cs))
        hs   == StripLeadingZeroDigits(HexVals(body))
        lower == \A i \in 1..Len(body) : ~IsUpperHexCode(body[i])
    IN  IF Len(hs) > 65 THEN Huge(neg)
        ELSE MkInt(cls(cs[2] = 120 /\ lower /\ canonicalDigits(body)), neg, BnFromHexDigits(hs))
  ELSE IF Len(cs) >= 3 /\ cs[1] = 48 /\ cs[2] = 98 /\ AllIn(SubSeq(cs, 3, Len(cs)), 48, 49) THEN
    LET vs == StripLeadingZeroDigits(DecVals(SubSeq(cs, 3, Len(cs))))
    IN  IF Len(vs) > 257 THEN Huge(neg) ELSE MkInt("alt", neg, FromRadixGo(vs, 2, 1, <<>>))
  ELSE IF Len(cs) >= 3 /\ cs[1] = 48 /\ cs[2] = 111 /\ AllIn(SubSeq(cs, 3, Len(cs)), 48, 55) THEN
    LET vs == StripLeadingZeroDigits(DecVals(SubSeq(cs, 3, Len(cs))))
    IN  IF Len(vs) > 87 THEN Huge(neg) ELSE MkInt("alt", neg, FromRadixGo(vs, 8, 1, <<>>))
  ELSE Bad

\* a numeric string: optional sign, then the body.  A leading '+' and a
\* negative hexadecimal are open spellings; "-<decimal>" is the standard
\* spelling of a negative integer.
DenoteString(cs) ==
  IF cs = <<>> THEN Bad
  ELSE IF cs[1] = 43 THEN DenoteUnsignedBody(Tail(cs), FALSE, TRUE)
  ELSE IF cs[1] = 45 THEN
    LET body == Tail(cs)
        d    == DenoteUnsignedBody(body, TRUE, ~AllDigit(body))
    IN  \* "-0" is an open spelling of zero
        IF d.c = "std" /\ BnIsZero(d.mag) THEN [d EXCEPT !.c = "alt"] ELSE d
  ELSE DenoteUnsignedBody(cs, FALSE, FALSE)

Denote(node) ==
  IF node.k = "num" THEN DenoteJsonNumber(StrToUtf8(node.v))
  ELSE IF node.k = "str" THEN DenoteString(StrToUtf8(node.v))
  ELSE BadWhy("wrong_kind")

-----------------------------------------------------------------------------
(* Classification against a range.  Result [c |-> "accept" | "reject" |    *)
(* "either", v |-> magnitude (and neg for signed)].                        *)

\* unsigned, value must be below 2^bits
ClassUint(node, bits) ==
  LET d == Denote(node) IN
  IF d.c \in {"bad", "huge"} THEN [c |-> "reject", v |-> <<>>, why |-> d.why]
  ELSE IF d.neg THEN [c |-> "reject", v |-> <<>>, why |-> "negative"]
  ELSE IF BnBitLen(d.mag) > bits THEN [c |-> "reject", v |-> <<>>, why |-> "too_large"]
  ELSE [c |-> IF d.c = "std" THEN "accept" ELSE "either", v |-> d.mag, why |-> ""]

\* signed two's complement of the given width: -2^(bits-1) <= value < 2^(bits-1)
ClassInt(node, bits) ==
  LET d == Denote(node) IN
  IF d.c \in {"bad", "huge"} THEN [c |-> "reject", neg |-> FALSE, v |-> <<>>, why |-> IF d.c = "bad" THEN d.why ELSE "int_range"]
  ELSE IF d.neg /\ BnLt(BnPow2(bits - 1), d.mag) THEN [c |-> "reject", neg |-> TRUE, v |-> <<>>, why |-> "int_range"]
  ELSE IF ~d.neg /\ BnBitLen(d.mag) > bits - 1 THEN [c |-> "reject", neg |-> FALSE, v |-> <<>>, why |-> "int_range"]
  ELSE [c |-> IF d.c = "std" THEN "accept" ELSE "either", neg |-> d.neg, v |-> d.mag, why |-> ""]

\* "0x" + an even number of hex digits.  A "hexstr" node is the run-length
\* form of such a string (lower-case digits): [rep |-> n, pat |-> "<hex>"].
ClassBytes(node) ==
  IF node.k = "hexstr" THEN
    LET pat == HexToBytes(node.v.pat)
    IN  [c |-> "accept", v |-> [i \in 1..(node.v.rep * Len(pat)) |-> pat[1 + ((i - 1) % Len(pat))]]]
  ELSE IF node.k # "str" THEN [c |-> "reject", v |-> <<>>]
  ELSE LET cs == StrToUtf8(node.v) IN
    IF Len(cs) < 2 \/ cs[1] # 48 \/ cs[2] # 120 THEN [c |-> "reject", v |-> <<>>]
    ELSE LET body == SubSeq(cs, 3, Len(cs)) IN
      IF ~AllHex(body) \/ Len(body) % 2 = 1 THEN [c |-> "reject", v |-> <<>>]
      ELSE [c |-> IF \A i \in 1..Len(body) : ~IsUpperHexCode(body[i]) THEN "accept" ELSE "either",
            v |-> HexPairs(body)]

\* exactly n bytes
ClassFixedBytes(node, n) ==
  LET b == ClassBytes(node)
  IN  IF b.c # "reject" /\ Len(b.v) # n THEN [c |-> "reject", v |-> <<>>] ELSE b
=============================================================================
