------------------------------ MODULE Gen_C12 ------------------------------
(* Workload for C12 (library part): generation with injected / refused /     *)
(* real entropy through the interposed getentropy.                           *)
EXTENDS GenMn
O1 == NOneHot
O2 == O1 + NRandFeed
O3 == O2 + NGenLens
O4 == O3 + NReal
O5 == O4 + NErrno
Count == O5 + NAliasLens
ItemAt(g) ==
  IF g <= O1 THEN OneHotAt(g)
  ELSE IF g <= O2 THEN RandFeedAt(g - O1)
  ELSE IF g <= O3 THEN GenLenAt(g - O2)
  ELSE IF g <= O4 THEN RealAt(g - O3)
  ELSE IF g <= O5 THEN ErrnoAt(g - O4)
  ELSE AliasLenAt(g - O5)
Histories == IF "VERIF_TIER" \in DOMAIN IOEnv /\ IOEnv.VERIF_TIER = "thorough" THEN 300 ELSE 40
VARIABLE n
INSTANCE GenBase
=============================================================================
