SPECIFICATION Spec
INVARIANT RoundTrip
INVARIANT EncodeShape
INVARIANT Corruptions
CHECK_DEADLOCK FALSE
