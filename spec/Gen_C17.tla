------------------------------ MODULE Gen_C17 ------------------------------
(***************************************************************************)
(* Workload for C17 (no panic, abort or hang): spec-directed damage of     *)
(* accepted inputs and hostile values in every argument slot.              *)
(*   - token-class edits (delete, duplicate, replace by a character of     *)
(*     another class, truncate) at every position of accepted path,        *)
(*     signature, phrase, hex and JSON texts                               *)
(*   - every JSON value kind (null, booleans, extreme / negative /         *)
(*     fractional / exponent numbers, odd strings, deep nesting up to 128) *)
(*     in every field of transaction and typed data documents              *)
(*   - member type strings with up to 64 (and more) array suffixes, odd    *)
(*     widths, unbalanced brackets, huge sizes                             *)
(*   - PRNG strings to every parser                                        *)
(*   - hostile values in every CLI option / argument / file slot           *)
(* The other generators (numeric boundaries of every grammar) are part of  *)
(* the C17 check as well; see checks_config.py.                            *)
(***************************************************************************)
EXTENDS DocAst, IOUtils, TLC

Seed     == IF "VERIF_SEED" \in DOMAIN IOEnv THEN IOEnv.VERIF_SEED ELSE "0"
Thorough == "VERIF_TIER" \in DOMAIN IOEnv /\ IOEnv.VERIF_TIER = "thorough"
K(tag, nums) == Key(Seed \o "/" \o tag, nums)
It(op, fam, in) == [i |-> 0, op |-> op, fam |-> fam, in |-> in]
S(cs) == Utf8ToStr(cs)
C(s) == StrToUtf8(s)

\* ---- character level edits -----------------------------------------------------------
\* replacement characters of "other classes" (UTF-8 byte sequences)
Repl == <<<<32>>, <<47>>, <<39>>, <<45>>, <<43>>, <<48>>, <<57>>, <<120>>, <<103>>, <<195, 169>>, <<10>>, <<34>>, <<92>>, <<123>>,
          <<93>>, <<44>>, <<58>>, <<46>>, <<101>>, <<0>>, <<240, 159, 152, 128>>>>
\* edit e of text cs at position p:  1 delete, 2 duplicate, 3 truncate before p, 4.. replace by Repl[e - 3]
NEdits == 3 + Len(Repl)
Edit(cs, p, e) ==
  IF e = 1 THEN SubSeq(cs, 1, p - 1) \o SubSeq(cs, p + 1, Len(cs))
  ELSE IF e = 2 THEN SubSeq(cs, 1, p) \o SubSeq(cs, p, Len(cs))
  ELSE IF e = 3 THEN SubSeq(cs, 1, p - 1)
  ELSE SubSeq(cs, 1, p - 1) \o Repl[e - 3] \o SubSeq(cs, p + 1, Len(cs))
\* all single edits of a text at the positions pos (a sequence)
NEditsOf(pos) == Len(pos) * NEdits
EditAt(cs, pos, j) == Edit(cs, pos[1 + ((j - 1) \div NEdits)], 1 + ((j - 1) % NEdits))
AllPos(cs) == [i \in 1..Len(cs) |-> i]
Stride(cs, k) == [i \in 1..(Len(cs) \div k) |-> i * k]

PathSeed == C("m/44'/60'/0'/0/12")
SigSeed  == C("0x") \o HexLower([i \in 1..64 |-> (i * 37 + 5) % 256]) \o C("1b")
SigPos   == <<1, 2, 3, 4, 5, 34, 66, 67, 68, 99, 130, 131, 132>>
PhraseSeed == C("myth like bonus scare over problem client lizard pioneer submit female collect")
HexSeed  == C("0x00ff10ab\n")
SeedHex64 == BytesToHex([i \in 1..64 |-> (i * 3) % 256])

NPath == NEditsOf(AllPos(PathSeed))
PathAt(j) ==
  LET t == S(EditAt(PathSeed, AllPos(PathSeed), j))
  IN  IF j % 2 = 0 THEN It("path.parse", "edit_path", [text |-> t]) ELSE It("hdk.derive", "edit_path", [seed |-> SeedHex64, path |-> t])
NSig == NEditsOf(SigPos)
SigAt(j) == It("sig.parse", "edit_sig", [text |-> S(EditAt(SigSeed, SigPos, j))])
PhrasePos == Stride(PhraseSeed, 3)
NPhrase == NEditsOf(PhrasePos)
PhraseAt(j) ==
  LET t == S(EditAt(PhraseSeed, PhrasePos, j))
  IN  IF j % 3 = 0 THEN It("mnemonic.seed", "edit_phrase", [text |-> t, pass |-> "x"]) ELSE It("mnemonic.parse", "edit_phrase", [text |-> t])

\* ---- JSON text edits -------------------------------------------------------------------
TxText == C("{\"chainId\":\"0x1\",\"nonce\":7,\"gasPrice\":1e9,\"gas\":21000,\"to\":\"0x00000000000000000000000000000000000000aa\",\"value\":\"1000000000000000000\",\"data\":\"0xc0ffee\",\"accessList\":[[\"0x00000000000000000000000000000000000000bb\",[\"0x0000000000000000000000000000000000000000000000000000000000000001\"]]]}")
TdText == C("{\"types\":{\"EIP712Domain\":[{\"name\":\"name\",\"type\":\"string\"},{\"name\":\"chainId\",\"type\":\"uint256\"}],\"Person\":[{\"name\":\"name\",\"type\":\"string\"},{\"name\":\"wallets\",\"type\":\"address[]\"}],\"Mail\":[{\"name\":\"from\",\"type\":\"Person\"},{\"name\":\"to\",\"type\":\"Person[2][]\"},{\"name\":\"n\",\"type\":\"int16\"},{\"name\":\"b\",\"type\":\"bytes3\"}]},\"primaryType\":\"Mail\",\"domain\":{\"name\":\"x\",\"chainId\":1},\"message\":{\"from\":{\"name\":\"a\",\"wallets\":[]},\"to\":[],\"n\":-5,\"b\":\"0x010203\"}}")
JsonStride == IF Thorough THEN 1 ELSE 3
RawDoc(cs) == [k |-> "raw", v |-> [hex |-> BytesToHex(cs)]]
NTxText == NEditsOf(Stride(TxText, JsonStride))
TxTextAt(j) == It("tx.sign", "edit_json", [doc |-> RawDoc(EditAt(TxText, Stride(TxText, JsonStride), j)),
                                           key |-> "4f3edf983ac636a65a842ce7c78d9aa706d3b113bce9c46f30d7d21715b23b1d"])
NTdText == NEditsOf(Stride(TdText, JsonStride))
TdTextAt(j) == It("typeddata", "edit_json", [doc |-> RawDoc(EditAt(TdText, Stride(TdText, JsonStride), j))])

\* ---- JSON values of every kind in every field --------------------------------------------
RECURSIVE Nest(_, _)
Nest(d, inner) == IF d = 0 THEN inner ELSE NArr(<<Nest(d - 1, inner)>>)
RECURSIVE NestObj(_, _)
NestObj(d, inner) == IF d = 0 THEN inner ELSE NObj(<< <<"x", NestObj(d - 1, inner)>> >>)
Values == <<
  NNull, NBool(TRUE), NBool(FALSE), NNum("0"), NNum("-0"), NNum("-1"), NNum("1.5"), NNum("-1.5e300"), NNum("1e400"), NNum("1e-400"),
  NNum("18446744073709551615"), NNum("18446744073709551616"), NNum("-9223372036854775808"), NNum("-9223372036854775809"),
  NNum("340282366920938463463374607431768211456"), NNum("115792089237316195423570985008687907853269984665640564039457584007913129639936"),
  NNum("-115792089237316195423570985008687907853269984665640564039457584007913129639936"), NNum("0.000000000000000000001"),
  NStr(""), NStr(" "), NStr("0x"), NStr("0x0"), NStr("-0x0"), NStr("-"), NStr("+"), NStr("0x-1"), NStr("0b"), NStr("0o8"), NStr("1e5"),
  NStr("115792089237316195423570985008687907853269984665640564039457584007913129639936"),
  NStr("-57896044618658097711785492504343953926634992332820282019728792003956564819969"),
  NStr("0xffffffffffffffffffffffffffffffffffffffffffffffffffffffffffffffffff"), NStr(CpsToStr(<<233, 128512, 0>>)),
  NStr("0x" \o BytesToHex(Rep(33, 255))), NStr("0x" \o BytesToHex(Rep(19, 1))), NStr("0x0x"), NStr("0xzz"),
  NArr(<<>>), NArr(<<NNull>>), NObj(<<>>), NObj(<< <<"", NNull>> >>), Nest(100, NNum("1")), Nest(120, NNull),
  NestObj(100, NNum("1")), NestObj(120, NNull), NArr([i \in 1..300 |-> NNum("1")]) >>
TxKeys == <<"chainId", "nonce", "gasPrice", "maxPriorityFeePerGas", "maxFeePerGas", "gas", "to", "value", "data", "accessList">>
TxBase(extra) ==
  NObj(<< <<"nonce", NNum("1")>>, <<"gas", NNum("21000")>>, <<"value", NNum("0")>>, <<"data", NStr("0x")>>, <<"gasPrice", NNum("1")>>,
          <<"chainId", NNum("1")>> >> \o extra)
NTxVals == Len(TxKeys) * Len(Values)
TxValAt(j) ==
  LET key == TxKeys[1 + ((j - 1) % Len(TxKeys))]
      val == Values[1 + ((j - 1) \div Len(TxKeys))]
  IN  \* the later duplicate of a key wins in the implementation's map: the hostile value replaces the base value
      It("tx.sign", "values", [doc |-> TxBase(<< <<key, val>> >>), key |-> "0000000000000000000000000000000000000000000000000000000000000001"])

Member(name, type) == NObj(<< <<"name", NStr(name)>>, <<"type", NStr(type)>> >>)
TdDoc(types, prim, domain, message) ==
  NObj(<< <<"types", types>>, <<"primaryType", prim>>, <<"domain", domain>>, <<"message", message>> >>)
DomT == <<"EIP712Domain", NArr(<<Member("name", "string")>>)>>
Dom  == NObj(<< <<"name", NStr("d")>> >>)
\* value v in a member of the given type, at top level and inside an array
TdTypes == <<"uint256", "int8", "bytes", "bytes32", "bool", "address", "string", "Q", "uint8[]", "Q[2]", "uint8[2][]">>
NTdVals == Len(TdTypes) * Len(Values)
TdValAt(j) ==
  LET ty  == TdTypes[1 + ((j - 1) % Len(TdTypes))]
      val == Values[1 + ((j - 1) \div Len(TdTypes))]
  IN  It("typeddata", "values",
         [doc |-> TdDoc(NObj(<<DomT, <<"P", NArr(<<Member("f", ty)>>)>>, <<"Q", NArr(<<Member("g", "uint8")>>)>> >>), NStr("P"), Dom,
                        NObj(<< <<"f", val>> >>))])
\* hostile values in the structural positions of a typed data document
\* layered ("diamond") reference graphs: L layers of W types, every type of a layer has an array member of every type
\* of the next layer: W^L reference paths over only L*W types (a resolver that walks paths instead of types does not
\* end); also with a back edge from the last layer to the first (cycle through all layers)
DiaName(l, w) == "T" \o ToString(l) \o "x" \o ToString(w)
Diamond(L, W, back) ==
  TdDoc(NObj(<<DomT>> \o
             [k \in 1..(L * W) |->
                LET l == 1 + ((k - 1) \div W)  w == 1 + ((k - 1) % W) IN
                <<DiaName(l, w), NArr(IF l < L THEN [v \in 1..W |-> Member("m" \o ToString(v), DiaName(l + 1, v) \o "[]")]
                                       ELSE IF back THEN <<Member("up", DiaName(1, 1) \o "[]")>> ELSE <<Member("x", "uint8")>>)>>]),
        NStr(DiaName(1, 1)), Dom, NObj([v \in 1..W |-> <<"m" \o ToString(v), NArr(<<>>)>>]))
Shapes == <<
  Diamond(8, 2, FALSE), Diamond(24, 2, FALSE), Diamond(64, 2, FALSE), Diamond(64, 2, TRUE), Diamond(12, 4, FALSE), Diamond(40, 3, TRUE),
  TdDoc(NNull, NStr("P"), Dom, NObj(<<>>)), TdDoc(NArr(<<>>), NStr("P"), Dom, NObj(<<>>)), TdDoc(NObj(<<>>), NStr("P"), Dom, NObj(<<>>)),
  TdDoc(NObj(<<DomT>>), NNull, Dom, NObj(<<>>)), TdDoc(NObj(<<DomT>>), NStr(""), Dom, NObj(<<>>)),
  TdDoc(NObj(<<DomT>>), NStr("EIP712Domain"), Dom, Dom), TdDoc(NObj(<<DomT, <<"P", NNull>> >>), NStr("P"), Dom, NObj(<<>>)),
  TdDoc(NObj(<<DomT, <<"P", NArr(<<NNull>>)>> >>), NStr("P"), Dom, NObj(<<>>)),
  TdDoc(NObj(<<DomT, <<"P", NArr(<<NObj(<< <<"name", NNum("1")>>, <<"type", NStr("uint8")>> >>)>>)>> >>), NStr("P"), Dom, NObj(<<>>)),
  TdDoc(NObj(<<DomT, <<"P", NArr(<<Member("f", "P")>>)>> >>), NStr("P"), Dom, NestObj(100, NObj(<<>>))),
  TdDoc(NObj(<<DomT, <<"P", NArr(<<Member("x", "P")>>)>> >>), NStr("P"), Dom, NestObj(120, NNull)),
  TdDoc(NObj(<<DomT, <<"P", NArr(<<Member("f", "P[]")>>)>> >>), NStr("P"), Dom, NObj(<< <<"f", Nest(120, NArr(<<>>))>> >>)),
  TdDoc(NObj(<<DomT, <<"A", NArr(<<Member("b", "B")>>)>>, <<"B", NArr(<<Member("a", "A[]")>>)>> >>), NStr("A"), Dom,
        NObj(<< <<"b", NObj(<< <<"a", NArr(<<>>)>> >>)>> >>)),
  \* reference cycles that do NOT pass through the primary type, with repeated references
  TdDoc(NObj(<<DomT, <<"P", NArr(<<Member("q", "Q")>>)>>, <<"Q", NArr(<<Member("qs", "Q[]")>>)>> >>), NStr("P"), Dom,
        NObj(<< <<"q", NObj(<< <<"qs", NArr(<<>>)>> >>)>> >>)),
  TdDoc(NObj(<<DomT, <<"P", NArr(<<Member("a", "A[]")>>)>>, <<"A", NArr(<<Member("b", "B[]")>>)>>, <<"B", NArr(<<Member("a", "A[]"), Member("c", "C[]")>>)>>,
               <<"C", NArr(<<Member("b", "B[]"), Member("b2", "B[]"), Member("c", "C[]")>>)>> >>), NStr("P"), Dom, NObj(<< <<"a", NArr(<<>>)>> >>)),
  TdDoc(NObj(<<DomT, <<"P", NArr(<<Member("x", "Q[]"), Member("y", "Q[]")>>)>>, <<"Q", NArr(<<Member("x", "Q[]"), Member("y", "Q[]"), Member("p", "P[]")>>)>> >>),
        NStr("P"), Dom, NObj(<< <<"x", NArr(<<>>)>>, <<"y", NArr(<<>>)>> >>)),
  TdDoc(NObj(<<DomT, <<"P", NArr(<<Member("f", "Ghost[]")>>)>>, <<"Q", NArr(<<Member("g", "Q")>>)>> >>), NStr("P"), Dom, NObj(<< <<"f", NArr(<<>>)>> >>)),
  TdDoc(NObj(<<DomT, <<"P", NArr([i \in 1..300 |-> Member("f" \o ToString(i), "uint8")])>> >>), NStr("P"), Dom, NObj(<<>>)),
  TdDoc(NObj(<<DomT>>), NStr("P"), NNull, NObj(<<>>)), TdDoc(NObj(<<DomT>>), NStr("P"), Dom, NNull),
  NNull, NArr(<<>>), NObj(<<>>), NStr("x"), NNum("1"), Nest(127, NNull), NestObj(127, NNull) >>
ShapeAt(j) == IF j <= Len(Shapes) THEN It("typeddata", "shapes", [doc |-> Shapes[j]])
              ELSE It("tx.sign", "shapes", [doc |-> Shapes[j - Len(Shapes)], key |-> "0000000000000000000000000000000000000000000000000000000000000002"])
NShapes == 2 * Len(Shapes)

\* member type strings
Sfx(k, s) == LET RECURSIVE go(_)
                 go(i) == IF i = 0 THEN "" ELSE s \o go(i - 1)
             IN  go(k)
TypeStrings == <<
  "uint8" \o Sfx(1, "[]"), "uint8" \o Sfx(2, "[]"), "uint8" \o Sfx(63, "[]"), "uint8" \o Sfx(64, "[]"),
  "uint8" \o Sfx(64, "[1]"), "Q" \o Sfx(64, "[]"), "Q" \o Sfx(64, "[1]"), "uint8" \o Sfx(32, "[2][]"),
  "uint8[", "]", "[]", "[", "uint8]", "uint8[]]", "uint8[[]", "uint8[99999999999999999999]", "uint8[18446744073709551615]",
  "uint8[18446744073709551616]", "uint8[-1]", "uint8[+1]", "uint8[ 1]", "uint8[1e3]", "uint8[4294967296]", "uint8[1000000]",
  "bytes0", "bytes33", "bytes4294967296", "bytes99999999999999999999", "uint0", "uint7", "uint257", "uint4294967304", "uint99999999999999999999",
  "int", "uint", "bytes", "int256x", "", " ", "uint8 ", CpsToStr(<<117, 105, 110, 116, 1636>>), CpsToStr(<<98, 121, 116, 101, 115, 65297>>),
  "Q[0]", "uint8[0]", "uint8[0][]", Sfx(3000, "a"),
  \* non-ASCII characters before / between digits and brackets (byte index vs character index)
  CpsToStr(<<71, 114, 246, 223, 101, 50>>), CpsToStr(<<233, 49>>), CpsToStr(<<36039, 29987, 49, 91, 93>>), CpsToStr(<<252, 110, 116, 56>>),
  CpsToStr(<<117, 105, 110, 116, 233, 56>>), CpsToStr(<<98, 121, 116, 101, 115, 128512, 51, 50>>), CpsToStr(<<81, 91, 233, 93>>),
  CpsToStr(<<128512, 91, 50, 93>>), CpsToStr(<<117, 105, 110, 116, 56, 91, 1636, 93>>) >>
NTypeStr == 2 * Len(TypeStrings)
TypeStrAt(j) ==
  LET ty == TypeStrings[1 + ((j - 1) % Len(TypeStrings))]
      \* a value of matching depth for the pure array forms: k nested arrays with no elements
      val == IF j <= Len(TypeStrings) THEN NArr(<<>>) ELSE Nest(63, NArr(<<>>))
  IN  IF j % 5 = 0 THEN It("eip712.member_kind", "types", [text |-> ty])
      ELSE It("typeddata", "types",
              [doc |-> TdDoc(NObj(<<DomT, <<"P", NArr(<<Member("f", ty)>>)>>, <<"Q", NArr(<<>>)>> >>), NStr("P"), Dom, NObj(<< <<"f", val>> >>))])

\* ---- PRNG strings to every parser -----------------------------------------------------------
Pool == <<32, 39, 43, 45, 46, 47, 48, 49, 57, 58, 65, 70, 97, 102, 103, 109, 120, 233, 8364, 128512, 9, 10, 0, 92, 34, 1636>>
RandStr(r) == CpsToStr([i \in 1..PrngNat(K("rl", r), 40) |-> Pool[1 + PrngNat(K("rc", r \o <<i>>), Len(Pool))]])
NRand == IF Thorough THEN 20000 ELSE 1200
RandAt(j) ==
  LET t == RandStr(<<j>>)  m == j % 8 IN
  IF m = 0 THEN It("mnemonic.parse", "random", [text |-> t])
  ELSE IF m = 1 THEN It("path.parse", "random", [text |-> "m/" \o t])
  ELSE IF m = 2 THEN It("path.parse", "random", [text |-> t])
  ELSE IF m = 3 THEN It("sig.parse", "random", [text |-> t])
  ELSE IF m = 4 THEN It("eip712.member_kind", "random", [text |-> t])
  ELSE IF m = 5 THEN It("key.new", "random", [secret |-> BytesToHex(Prng(K("rk", <<j>>), PrngNat(K("rn", <<j>>), 70)))])
  ELSE IF m = 6 THEN It("tx.sign", "random", [doc |-> RawDoc(Prng(K("rj", <<j>>), PrngNat(K("rm", <<j>>), 60))),
                                               key |-> "0000000000000000000000000000000000000000000000000000000000000001"])
  ELSE It("typeddata", "random", [doc |-> RawDoc(C("{\"types\":{\"EIP712Domain\":[]},\"primaryType\":") \o Prng(K("rt", <<j>>), 20))])

\* ---- the command line: hostile values in every slot -----------------------------------------------
Mn == "myth like bonus scare over problem client lizard pioneer submit female collect"
Hostile == <<"", " ", "-", "--", "-1", "0", "00", "+1", "1e3", "0x10", "4294967295", "4294967296", "18446744073709551615", "18446744073709551616",
             "99999999999999999999999999", "abc", "0x", CpsToStr(<<233>>), CpsToStr(<<128512>>), "m", "m/", "m/0/", "m//0", "m/0'/'",
             "m/4294967295'", "m/2147483648", "0xg", "0x 1", Sfx(5000, "9"), Sfx(5000, "m/"), "\n", "a b">>
Cli(fam, argv, env, stdin, files) ==
  It("cli", fam, [argv |-> argv, env |-> env, stdin |-> [hex |-> stdin], files |-> files, timeout_ms |-> 60000])
MnEnv == [MNEMONIC |-> Mn]
NoEnv == [HDW_NONE |-> ""]
NoFiles == [none |-> [hex |-> ""]]
TxFile == [in |-> [hex |-> BytesToHex(TxText)]]
Slots == 9
NCliSlots == Slots * Len(Hostile)
CliSlotAt(j) ==
  LET v == Hostile[1 + ((j - 1) % Len(Hostile))]
      s == (j - 1) \div Len(Hostile)
  IN  IF s = 0 THEN Cli("slots", <<"address", "--mnemonic", v>>, NoEnv, "", NoFiles)
      ELSE IF s = 1 THEN Cli("slots", <<"address", "--hd-path", v>>, MnEnv, "", NoFiles)
      ELSE IF s = 2 THEN Cli("slots", <<"export", "--account-index", v>>, MnEnv, "", NoFiles)
      ELSE IF s = 3 THEN Cli("slots", <<"hash", "transaction", "--signature", v, "@F:in">>, NoEnv, "", TxFile)
      ELSE IF s = 4 THEN Cli("slots", <<"sign", "raw", v>>, MnEnv, "", NoFiles)
      ELSE IF s = 5 THEN Cli("slots", <<"new", "-n", v>>, NoEnv, "", NoFiles)
      ELSE IF s = 6 THEN Cli("slots", <<"new", "--vanity-prefix", IF Len(StrToUtf8(v)) > 3 /\ Len(StrToUtf8(v)) < 100 THEN "0xg" \o v ELSE v, "-j", "2">>, NoEnv, "", NoFiles)
      \* thread counts above 64 are outside the property's bound: numeric values are replaced
      ELSE IF s = 7 THEN Cli("slots", <<"new", "--vanity-prefix", "0x7", "-j", IF AllDigit(StrToUtf8(v)) /\ v # "" THEN "3" ELSE v>>, NoEnv, "", NoFiles)
      ELSE Cli("slots", <<"address", "--password", v, "--account-index", "1">>, [MNEMONIC |-> Mn, PASSWORD |-> v], "", NoFiles)
\* thread counts 0..64 with and without a prefix; account index selectors of the vanity search
NThreads == 65 + 8
ThreadsAt(j) ==
  IF j <= 65 THEN Cli("threads", <<"new", "--vanity-prefix", IF j % 2 = 0 THEN "0xA" ELSE "0x3", "-j", ToString(j - 1)>>, NoEnv, "", NoFiles)
  ELSE LET v == <<"2147483647", "2147483648", "4294967295", "4294967296", "18446744073709551615", "18446744073709551616", "-1", "x">>[j - 65]
       IN  Cli("threads", <<"new", "--vanity-prefix", "0x1", "--vanity-account-index", v, "-j", "4">>, NoEnv, "", NoFiles)
\* files and stdin with arbitrary content for every command that reads input
Contents == <<"", "00", "7b", "7b7d", "5b5d", "6e756c6c", "ff", "fffe00", "22", "7b22223a", BytesToHex(Rep(10000, 91)), BytesToHex(Rep(300, 123)),
              BytesToHex(C("{\"types\":{},\"primaryType\":\"\",\"domain\":{},\"message\":{}}")), BytesToHex(TxText), BytesToHex(TdText),
              BytesToHex(C("0x")), BytesToHex(C("0xabc")), BytesToHex(<<48, 120, 255>>), BytesToHex(Rep(4097, 48))>>
Readers == << <<"hash", "transaction">>, <<"hash", "message">>, <<"hash", "typeddata">>, <<"hash", "typeddata", "--message-hash">>, <<"hash", "data">>,
              <<"hex", "encode">>, <<"hex", "decode">>, <<"sign", "transaction">>, <<"sign", "transaction", "--signature-only", "--allow-missing-relay-protection">>,
              <<"sign", "message">>, <<"sign", "typeddata">> >>
NFiles == Len(Readers) * Len(Contents) + 2 * Len(Readers)
FilesAt(j) ==
  IF j <= Len(Readers) * Len(Contents) THEN
    LET rd == Readers[1 + ((j - 1) % Len(Readers))]
        ct == Contents[1 + ((j - 1) \div Len(Readers))]
    IN  IF j % 2 = 0 THEN Cli("files", rd \o <<"@F:in">>, MnEnv, "", [in |-> [hex |-> ct]])
        ELSE Cli("files", rd \o <<"-">>, MnEnv, ct, NoFiles)
  ELSE LET q == j - Len(Readers) * Len(Contents)
           rd == Readers[1 + ((q - 1) % Len(Readers))]
       IN  \* a missing file; a directory
           Cli("files", rd \o <<IF q <= Len(Readers) THEN "/nonexistent/file" ELSE "/">>, MnEnv, "", NoFiles)

\* ---- text that an error message may ECHO, with a multi-byte character at every byte offset ----------------------
\* n ASCII letters, then U+00E9 / U+20AC / U+1F600, then a tail: whatever a parser does with text it refuses - quote it,
\* shorten it, index into it - must work at every offset of the first non-ASCII character (n = 0..300 and around
\* 512, 1024, 4096, 65536)
EchoLens == [i \in 1..301 |-> i - 1] \o <<509, 510, 511, 512, 513, 1021, 1022, 1023, 1024, 1025, 4093, 4094, 4095, 4096, 4097, 65534, 65535, 65536>>
EchoText(j) ==
  LET n == EchoLens[1 + ((j - 1) % Len(EchoLens))]
      c == <<<<195, 169>>, <<226, 130, 172>>, <<240, 159, 152, 128>>>>[1 + (j % 3)]
  IN  S(Rep(n, 97) \o c \o StrToUtf8("xyz"))
NEcho == Len(EchoLens) * 9
EchoAt(j) ==
  LET t == EchoText(j)
      k == (j - 1) \div Len(EchoLens)
      td(ty, v) == TdDoc(NObj(<<DomT, <<"P", NArr(<<Member("f", ty)>>)>>, <<"Q", NArr(<<Member("g", "uint8")>>)>> >>), NStr("P"), Dom, NObj(<< <<"f", v>> >>))
  IN  IF k = 0 THEN It("typeddata", "echo_offsets", [doc |-> td("Q", NStr(t))])              \* a string where an object is expected
      ELSE IF k = 1 THEN It("typeddata", "echo_offsets", [doc |-> td("uint8[]", NStr(t))])   \* ... an array
      ELSE IF k = 2 THEN It("typeddata", "echo_offsets", [doc |-> td("uint256", NStr(t))])   \* ... a number
      ELSE IF k = 3 THEN It("typeddata", "echo_offsets", [doc |-> td(t, NNum("1"))])         \* as a type name
      ELSE IF k = 4 THEN It("tx.sign", "echo_offsets", [doc |-> NObj(<< <<"nonce", NStr(t)>>, <<"gasPrice", NNum("1")>>, <<"gas", NNum("1")>>, <<"value", NNum("0")>>, <<"data", NStr("0x")>> >>),
                                                            key |-> "0000000000000000000000000000000000000000000000000000000000000002"])
      ELSE IF k = 5 THEN It("mnemonic.parse", "echo_offsets", [text |-> "abandon " \o t \o " about"])
      ELSE IF k = 6 THEN It("path.parse", "echo_offsets", [text |-> "m/" \o t])
      ELSE IF k = 7 THEN It("sig.parse", "echo_offsets", [text |-> "0x" \o t])
      ELSE It("eip712.member_kind", "echo_offsets", [text |-> t \o "[2]"])

O1 == NPath
O2 == O1 + NSig
O3 == O2 + NPhrase
O4 == O3 + NTxText
O5 == O4 + NTdText
O6 == O5 + NTxVals
O7 == O6 + NTdVals
O8 == O7 + NShapes
O9 == O8 + NTypeStr
O10 == O9 + NRand
O11 == O10 + NCliSlots
O12 == O11 + NThreads
O13 == O12 + NFiles
Count == O13 + NEcho
ItemAt(g) ==
  IF g <= O1 THEN PathAt(g)
  ELSE IF g <= O2 THEN SigAt(g - O1)
  ELSE IF g <= O3 THEN PhraseAt(g - O2)
  ELSE IF g <= O4 THEN TxTextAt(g - O3)
  ELSE IF g <= O5 THEN TdTextAt(g - O4)
  ELSE IF g <= O6 THEN TxValAt(g - O5)
  ELSE IF g <= O7 THEN TdValAt(g - O6)
  ELSE IF g <= O8 THEN ShapeAt(g - O7)
  ELSE IF g <= O9 THEN TypeStrAt(g - O8)
  ELSE IF g <= O10 THEN RandAt(g - O9)
  ELSE IF g <= O11 THEN CliSlotAt(g - O10)
  ELSE IF g <= O12 THEN ThreadsAt(g - O11)
  ELSE IF g <= O13 THEN FilesAt(g - O12)
  ELSE EchoAt(g - O13)
Histories == IF "VERIF_TIER" \in DOMAIN IOEnv /\ IOEnv.VERIF_TIER = "thorough" THEN 300 ELSE 40
VARIABLE n
INSTANCE GenBase
=============================================================================
