------------------------------ MODULE Gen_C06 ------------------------------
(* Workload for C06: signed transactions of all kinds / shapes.             *)
EXTENDS GenTx
NRandom == IF Thorough THEN 20000 ELSE 500
O1 == NPresence
O2 == O1 + NBoundary
O3 == O2 + NData
O4 == O3 + NAccessList
O5 == O4 + NChain
O6 == O5 + NRandom
O7 == O6 + NShortSig
O8 == O7 + NSigWidth
O9 == O8 + NAlWords
O10 == O9 + NVWidth
Count == O10 + NForeign
ItemAt(g) ==
  IF g <= O1 THEN PresenceAt(g)
  ELSE IF g <= O2 THEN BoundaryAt(g - O1)
  ELSE IF g <= O3 THEN DataAt(g - O2)
  ELSE IF g <= O4 THEN AccessListAt(g - O3)
  ELSE IF g <= O5 THEN ChainAt(g - O4)
  ELSE IF g <= O6 THEN RandomAt(g - O5)
  ELSE IF g <= O7 THEN ShortSigAt(g - O6)
  ELSE IF g <= O8 THEN SigWidthAt(g - O7)
  ELSE IF g <= O9 THEN AlWordAt(g - O8)
  ELSE IF g <= O10 THEN VWidthAt(g - O9)
  ELSE ForeignAt(g - O10)
Histories == IF "VERIF_TIER" \in DOMAIN IOEnv /\ IOEnv.VERIF_TIER = "thorough" THEN 300 ELSE 40
VARIABLE n
INSTANCE GenBase
=============================================================================
