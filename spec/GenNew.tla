------------------------------- MODULE GenNew -------------------------------
(* Workload families for `hdwallet new` under the LD_PRELOAD entropy shim     *)
(* (Gen_C18, Gen_C12cli).                                                     *)
EXTENDS DocAst, NewCmd, IOUtils, TLC
Seed     == IF "VERIF_SEED" \in DOMAIN IOEnv THEN IOEnv.VERIF_SEED ELSE "0"
Thorough == "VERIF_TIER" \in DOMAIN IOEnv /\ IOEnv.VERIF_TIER = "thorough"
K(tag, nums) == Key(Seed \o "/" \o tag, nums)

New(length, prefix, vpassword, vindex, vpath, threads) ==
  [length |-> length, prefix |-> prefix, vpassword |-> vpassword, vindex |-> vindex, vpath |-> vpath, threads |-> threads]
\* fail: <<request numbers that the shim refuses>>, from: refuse every request >= from (-1: none)
\* every command gets a spelling style chosen by its content (10 of 12: the five spellings of Args!Styles in both option
\* orders; 2 of 12: the plain form); values that would not survive as a separate token (a leading "-") keep the plain form
Styled(c0) ==
  LET k == PrngNat(K("nsty" \o c0.prefix \o "/" \o c0.length \o "/" \o c0.threads \o "/" \o c0.vindex \o "/" \o c0.vpath, <<>>), 12)
      ok == \A i \in 1..7 : SeparableValue(NewVal(c0, NewKeys[i]))
  IN  IF k >= 10 \/ ~ok \/ "style" \in DOMAIN c0 THEN c0 ELSE c0 @@ [style |-> [opt |-> Styles[1 + (k % 5)], rev |-> k >= 5]]
NewIn(c0, fail, from) ==
  LET c == Styled(c0) IN
  [new |-> c, argv |-> NewArgv(c), env |-> [HDW_NONE |-> ""], timeout_ms |-> 120000,
   \* once a failure was injected every later request is delayed by 500 ms (see Vanity!PromptExit)
   shim |-> IF from >= 0 THEN [fail_at |-> fail, fail_from |-> from, slow_after_fail_ms |-> 500]
            ELSE [fail_at |-> fail, slow_after_fail_ms |-> 500]]
NItem(fam, c, fail, from) == [i |-> 0, op |-> "cli.new", fam |-> fam, in |-> NewIn(c, fail, from)]
NSItem(fam, sid, c, rel) == [i |-> 0, op |-> "cli.new", fam |-> fam, sid |-> sid, in |-> NewIn(c, <<>>, -1) @@ [rel |-> rel]]

HexDigitsLower == "0123456789abcdef"
Digit22 == <<"0", "1", "2", "3", "4", "5", "6", "7", "8", "9", "a", "b", "c", "d", "e", "f", "A", "B", "C", "D", "E", "F">>
=============================================================================
