-------------------------------- MODULE Args --------------------------------
(***************************************************************************)
(* The command line grammar of hdwallet as a token machine.                *)
(*                                                                         *)
(* What hdwallet's own source declares (src/main.rs, src/cmd.rs,           *)
(* src/cmd/*.rs: command tree, option names, short forms, environment      *)
(* variables, which options take a value, the conflict of the two account  *)
(* selectors, the default input "-" of `hex`) is the table below; the      *)
(* generic reading of GNU-style tokens (what the clap dependency does) is   *)
(* the machine ArgTok / ArgFinish: one action per argv token, then the           *)
(* environment is consulted for the options that were not given.           *)
(*                                                                         *)
(*   state  [path, bound, pos, pend, dd, err]                              *)
(*     path   the subcommands chosen so far, e.g. <<"sign", "message">>     *)
(*     bound  options bound so far: sequence of [key, src, v]              *)
(*     pos    positional arguments of the innermost command                *)
(*     pend   key of an option still waiting for its value ("" = none)     *)
(*     dd     "--" was seen: everything after it is positional             *)
(*     err    "" or the reason the command line is refused (usage error)   *)
(*                                                                         *)
(* ParseArgv(argv, env) folds ArgTok over argv and applies ArgFinish.  Wallet's  *)
(* first pipeline stage IS this machine (Wallet!StepOptions); MC_Args      *)
(* checks that every spelling style of every command denotes the command   *)
(* (rendering and parsing are inverse), and that the mutations a user slip *)
(* produces (a dropped value, a repeated option, an unknown option, an     *)
(* account option after the inner subcommand, a surplus argument) are      *)
(* refused.  The options of `new` are declared here; what `new` does is NewCmd.tla.         *)
(***************************************************************************)
EXTENDS Bytes, Prim

\* ---- declarations (hdwallet's own source) ----------------------------------------------------
\* key: the name Wallet.tla uses; long / short: spellings; env: variable ("" = none); val: takes a value
Decl(key, long, short, env, val) == [key |-> key, long |-> long, short |-> short, env |-> env, val |-> val]
AcctDecl == << Decl("mnemonic", "mnemonic", "m", "MNEMONIC", TRUE), Decl("password", "password", "", "PASSWORD", TRUE),
               Decl("index", "account-index", "", "ACCOUNT_INDEX", TRUE), Decl("path", "hd-path", "", "HD_PATH", TRUE) >>
SignTxDecl == << Decl("signature_only", "signature-only", "", "", FALSE),
                 Decl("allow_missing", "allow-missing-relay-protection", "", "", FALSE) >>
HashTxDecl == << Decl("signature", "signature", "s", "", TRUE) >>
HashTdDecl == << Decl("message_hash", "message-hash", "m", "", FALSE) >>
\* `new` (src/cmd/new.rs): no environment variables; the two vanity selectors conflict like the account selectors
NewDecl == << Decl("length", "length", "n", "", TRUE), Decl("language", "language", "l", "", TRUE),
              Decl("prefix", "vanity-prefix", "", "", TRUE), Decl("vpassword", "vanity-password", "", "", TRUE),
              Decl("vindex", "vanity-account-index", "", "", TRUE), Decl("vpath", "vanity-hd-path", "", "", TRUE),
              Decl("threads", "vanity-threads", "j", "", TRUE) >>

AcctCommands == {"address", "export", "public-key", "sign"}
TopSubs == {"address", "export", "public-key", "sign", "hash", "hex", "new"}
\* the node of the command tree at a path: options in scope, subcommands (a set; {} = leaf), positionals min..max
ArgNode(path) ==
  IF path = <<>> THEN [opts |-> <<>>, subs |-> TopSubs, lo |-> 0, hi |-> 0]
  ELSE IF Len(path) = 1 THEN
    (IF path[1] \in {"address", "export", "public-key"} THEN [opts |-> AcctDecl, subs |-> {}, lo |-> 0, hi |-> 0]
     ELSE IF path[1] = "sign" THEN [opts |-> AcctDecl, subs |-> {"transaction", "message", "typeddata", "raw"}, lo |-> 0, hi |-> 0]
     ELSE IF path[1] = "hash" THEN [opts |-> <<>>, subs |-> {"transaction", "message", "typeddata", "data"}, lo |-> 0, hi |-> 0]
     ELSE IF path[1] = "hex" THEN [opts |-> <<>>, subs |-> {"encode", "decode"}, lo |-> 0, hi |-> 0]
     ELSE [opts |-> NewDecl, subs |-> {}, lo |-> 0, hi |-> 0])                \* new (its meaning: NewCmd.tla)
  ELSE IF path[1] = "sign" THEN [opts |-> IF path[2] = "transaction" THEN SignTxDecl ELSE <<>>, subs |-> {}, lo |-> 1, hi |-> 1]
  ELSE IF path[1] = "hash" THEN
    [opts |-> IF path[2] = "transaction" THEN HashTxDecl ELSE IF path[2] = "typeddata" THEN HashTdDecl ELSE <<>>,
     subs |-> {}, lo |-> 1, hi |-> 1]
  ELSE [opts |-> <<>>, subs |-> {}, lo |-> 0, hi |-> 1]                        \* hex encode / decode: default "-"

\* ---- the token machine ---------------------------------------------------------------------
ArgS0 == [path |-> <<>>, bound |-> <<>>, pos |-> <<>>, pend |-> "", dd |-> FALSE, err |-> ""]
ArgErr(s, why) == [s EXCEPT !.err = why]
ArgIsBound(s, key) == \E i \in 1..Len(s.bound) : s.bound[i].key = key
ArgBind(s, key, src, v) ==
  IF ArgIsBound(s, key) THEN ArgErr(s, "option_repeated")
  ELSE [s EXCEPT !.bound = Append(@, [key |-> key, src |-> src, v |-> v]), !.pend = ""]
ByLong(opts, name)  == {i \in 1..Len(opts) : opts[i].long = name}
ByShort(opts, name) == {i \in 1..Len(opts) : opts[i].short = name}
IndexOfEq(b) == IF \E i \in 1..Len(b) : b[i] = 61 THEN CHOOSE i \in 1..Len(b) : b[i] = 61 /\ \A j \in 1..(i - 1) : b[j] # 61 ELSE 0

ArgPositional(s, t) ==
  LET nd == ArgNode(s.path) IN
  IF nd.subs # {} THEN
    (IF s.dd THEN ArgErr(s, "unexpected_argument")
     ELSE IF t \in nd.subs THEN [s EXCEPT !.path = Append(@, t)]
     ELSE ArgErr(s, "unknown_subcommand"))
  ELSE IF Len(s.pos) < nd.hi THEN [s EXCEPT !.pos = Append(@, t)]
  ELSE ArgErr(s, "unexpected_argument")

ArgTok(s, t) ==
  LET b == StrToUtf8(t)
      n == Len(b)
      dash1 == n >= 2 /\ b[1] = 45
      dash2 == n >= 3 /\ b[1] = 45 /\ b[2] = 45
      opts  == ArgNode(s.path).opts
  IN
  IF s.err # "" THEN s
  ELSE IF s.pend # "" THEN
    \* the value of an option: any token except one that looks like an option ("-" alone is a value)
    (IF t = "--" THEN ArgErr(s, "value_missing") ELSE IF dash1 THEN ArgErr(s, "value_looks_like_option")
     ELSE ArgBind(s, s.pend, "flag", t))
  ELSE IF s.dd THEN ArgPositional(s, t)
  ELSE IF t = "--" THEN [s EXCEPT !.dd = TRUE]
  \* every command has --help / -h, the top level also --version / -V, every command with subcommands a `help` subcommand:
  \* the line is not a command to carry out but a request for text (status 0, the text itself is not specified)
  ELSE IF t \in {"--help", "-h"} THEN ArgErr(s, "help_requested")
  ELSE IF s.path = <<>> /\ t \in {"--version", "-V"} THEN ArgErr(s, "version_requested")
  ELSE IF t = "help" /\ ArgNode(s.path).subs # {} THEN ArgErr(s, "help_requested")
  ELSE IF dash2 THEN
    LET e    == IndexOfEq(b)
        name == Utf8ToStr(IF e = 0 THEN SubSeq(b, 3, n) ELSE SubSeq(b, 3, e - 1))
        hit  == ByLong(opts, name)
    IN  IF hit = {} THEN ArgErr(s, "unknown_option")
        ELSE LET o == opts[CHOOSE i \in hit : TRUE] IN
             IF o.val THEN (IF e = 0 THEN (IF ArgIsBound(s, o.key) THEN ArgErr(s, "option_repeated") ELSE [s EXCEPT !.pend = o.key])
                            ELSE ArgBind(s, o.key, "flag", Utf8ToStr(SubSeq(b, e + 1, n))))
             ELSE IF e # 0 THEN ArgErr(s, "flag_with_value") ELSE ArgBind(s, o.key, "flag", "")
  ELSE IF dash1 THEN
    LET hit  == ByShort(opts, Utf8ToStr(<<b[2]>>))
        rest == SubSeq(b, 3, n)
    IN  IF hit = {} THEN ArgErr(s, "unknown_option")
        ELSE LET o == opts[CHOOSE i \in hit : TRUE] IN
             IF o.val THEN
               (IF rest = <<>> THEN (IF ArgIsBound(s, o.key) THEN ArgErr(s, "option_repeated") ELSE [s EXCEPT !.pend = o.key])
                ELSE ArgBind(s, o.key, "flag", Utf8ToStr(IF rest[1] = 61 THEN Tail(rest) ELSE rest)))
             ELSE IF rest # <<>> THEN ArgErr(s, "unknown_option")                  \* no other short flag to cluster with
             ELSE ArgBind(s, o.key, "flag", "")
  ELSE ArgPositional(s, t)

RECURSIVE ArgFold(_, _, _)
ArgFold(s, argv, i) == IF i > Len(argv) THEN s ELSE ArgFold(ArgTok(s, argv[i]), argv, i + 1)

\* after the last token: pending values, missing parts, then the environment for the options not given
RECURSIVE ArgEnvBind(_, _, _)
ArgEnvBind(s, env, i) ==
  IF i > Len(AcctDecl) THEN s
  ELSE LET o == AcctDecl[i] IN
       ArgEnvBind(IF ~ArgIsBound(s, o.key) /\ o.env \in DOMAIN env THEN ArgBind(s, o.key, "env", env[o.env]) ELSE s, env, i + 1)
ArgFinish(s, env) ==
  LET nd == ArgNode(s.path) IN
  IF s.err # "" THEN s
  ELSE IF s.pend # "" THEN ArgErr(s, "value_missing")
  ELSE IF nd.subs # {} THEN ArgErr(s, "subcommand_missing")
  ELSE IF Len(s.pos) < nd.lo THEN ArgErr(s, "argument_missing")
  ELSE IF s.path[1] = "new" THEN (IF ArgIsBound(s, "vindex") /\ ArgIsBound(s, "vpath") THEN ArgErr(s, "selectors_combined") ELSE s)
  ELSE IF s.path[1] \notin AcctCommands THEN s
  ELSE LET r == ArgEnvBind(s, env, 1) IN
       IF ~ArgIsBound(r, "mnemonic") THEN ArgErr(r, "mnemonic_required")
       ELSE IF ArgIsBound(r, "index") /\ ArgIsBound(r, "path") THEN ArgErr(r, "selectors_combined")
       ELSE r
ParseArgv(argv, env) == ArgFinish(ArgFold(ArgS0, argv, 1), env)
\* not refusals: requests for text
TextRequests == {"help_requested", "version_requested"}
\* the refusals that are usage errors proper (Wallet names them "usage_" \o reason)
UsageReasons == {"unknown_option", "option_repeated", "value_missing", "value_looks_like_option", "unexpected_argument",
                 "unknown_subcommand", "argument_missing", "flag_with_value", "subcommand_missing"}

\* ---- what a parsed command line means (the part of Wallet's command record the line determines) ----
OptOf(s, key) == IF ArgIsBound(s, key) THEN LET b == s.bound[CHOOSE i \in 1..Len(s.bound) : s.bound[i].key = key]
                                         IN [src |-> b.src, v |-> b.v]
                 ELSE [src |-> "none", v |-> ""]
FlagKeys == <<"signature_only", "allow_missing", "message_hash">>
MeaningOf(s) ==
  [sub |-> s.path[1], what |-> IF Len(s.path) >= 2 THEN s.path[2] ELSE "",
   acct |-> [mnemonic |-> OptOf(s, "mnemonic"), password |-> OptOf(s, "password"), index |-> OptOf(s, "index"), path |-> OptOf(s, "path")],
   flags |-> {FlagKeys[i] : i \in {j \in 1..3 : ArgIsBound(s, FlagKeys[j])}},
   sigtext |-> OptOf(s, "signature").v,
   pos |-> IF s.path[1] = "hex" /\ s.pos = <<>> THEN <<"-">> ELSE s.pos]

\* ---- rendering: the spellings of one option -------------------------------------------------
\* style "sp": --long VALUE   "eq": --long=VALUE   "short": -s VALUE   "att": -sVALUE   "seq": -s=VALUE
\* (the short styles fall back to "sp" for options without a short form; "att" to "seq" when the value is empty or
\* begins with "=", which the attached form cannot express; the rendering is literal: a separate value that looks
\* like an option is written as it is and the machine refuses the line)
DeclOf(key) ==
  LET all == AcctDecl \o SignTxDecl \o HashTxDecl \o HashTdDecl \o NewDecl IN all[CHOOSE i \in 1..Len(all) : all[i].key = key]
RenderOpt(key, v, style) ==
  LET o == DeclOf(key)
      st == IF o.short = "" /\ style \in {"short", "att", "seq"} THEN "sp" ELSE style
      vb == StrToUtf8(v)
  IN  IF ~o.val THEN (IF st \in {"sp", "eq"} THEN <<"--" \o o.long>> ELSE <<"-" \o o.short>>)
      ELSE IF st = "sp" THEN <<"--" \o o.long, v>>
      ELSE IF st = "eq" THEN <<"--" \o o.long \o "=" \o v>>
      ELSE IF st = "short" THEN <<"-" \o o.short, v>>
      ELSE IF st = "att" /\ vb # <<>> /\ vb[1] # 61 THEN <<"-" \o o.short \o v>>
      ELSE <<"-" \o o.short \o "=" \o v>>
\* a value written as a token of its own must not look like an option (the parser refuses it: value_looks_like_option)
SeparableValue(v) == LET vb == StrToUtf8(v) IN ~(Len(vb) >= 2 /\ vb[1] = 45)
Styles == <<"sp", "eq", "short", "att", "seq">>
=============================================================================
