--------------------------------- MODULE Uni ---------------------------------
(***************************************************************************)
(* The code points on which Unicode normalisation DOES something, found by *)
(* the specification itself with the normalisation primitive:              *)
(*   Interesting   assigned code points (in the JDK's Unicode version;     *)
(*                 normalisation of assigned characters is frozen by the   *)
(*                 stability policy, so newer tables agree on them) whose  *)
(*                 NFKD is not the code point itself, and combining marks  *)
(*   NonLocal(a,b) NFKD of the pair is not the concatenation of the NFKDs: *)
(*                 canonical reordering across the boundary                *)
(* and the quick-check signature of a string (is it NFD / NFC / NFKC       *)
(* already): implementations take fast paths on those, so test strings are *)
(* packed from pieces with the SAME signature.                             *)
(***************************************************************************)
EXTENDS Prim, Naturals, Sequences

MaxCp == 196607                                   \* planes 0..2
Assigned(cp) == CpClass(cp) \in {"mark", "other"}
IsInteresting(cp) == Assigned(cp) /\ (CpClass(cp) = "mark" \/ Nfkd(<<cp>>) # <<cp>>)
Interesting == SelectSeq([i \in 1..(MaxCp + 1) |-> i - 1], IsInteresting)

\* one combining mark of every canonical combining class (Unicode 14 data; only INPUTS, the oracle is Nfkd), marks of
\* the large classes from several scripts, and the half-width voiced marks whose compatibility expansion is a mark
MarkReps0 == <<820, 94192, 2364, 12441, 2381, 1456, 1457, 1458, 1459, 1460, 1461, 1462, 1463, 1464, 1465, 1467, 1468, 1469, 1471,
               1473, 1474, 64286, 1611, 1612, 1613, 1560, 1561, 1562, 1617, 1618, 1648, 1809, 3157, 3158, 3640, 3656, 3768, 3784,
               3953, 3954, 3956, 801, 7630, 795, 7674, 790, 1434, 12334, 119149, 1454, 768, 789, 860, 861, 837,
               803, 769, 12442, 65438, 65439, 119141, 8400, 12330, 7616, 65056>>
MarkReps == SelectSeq(MarkReps0, Assigned)

NonLocal(a, b) == Nfkd(<<a, b>>) # Nfkd(<<a>>) \o Nfkd(<<b>>)
\* candidates on the left: the NFKD ends in a combining mark (only a non-starter can be reordered with what follows)
EndsInMark(cp) == LET d == Nfkd(<<cp>>) IN CpClass(d[Len(d)]) = "mark"
LeftCands == SelectSeq(Interesting, EndsInMark)
\* all non-local pairs <<a, b>> with b a representative mark, grouped by a
PairsOf(a) == LET bs == SelectSeq(MarkReps, LAMBDA b : NonLocal(a, b)) IN [i \in 1..Len(bs) |-> <<a, bs[i]>>]

\* signature 0..7 of a code point sequence: bit 0 is-NFD, bit 1 is-NFC, bit 2 is-NFKC
Sig(cps) == (IF NormForm("NFD", cps) = cps THEN 1 ELSE 0) + (IF NormForm("NFC", cps) = cps THEN 2 ELSE 0)
            + (IF NormForm("NFKC", cps) = cps THEN 4 ELSE 0)
=============================================================================
