SPECIFICATION Spec
CONSTANT Variant = "spec"
INVARIANT ScanEqualsRule
CHECK_DEADLOCK FALSE
