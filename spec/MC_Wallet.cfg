SPECIFICATION Spec
INVARIANT StagesOK
INVARIANT ReplayGuard
INVARIANT ChainBound
INVARIANT SignHashAgree
INVARIANT SilentFailure
INVARIANT SelectorsExclusive
INVARIANT SourcesEquivalent
INVARIANT OverflowIsOpen
INVARIANT ChannelIndependent
PROPERTY Terminates
CHECK_DEADLOCK FALSE
