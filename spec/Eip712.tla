-------------------------------- MODULE Eip712 --------------------------------
(***************************************************************************)
(* EIP-712 typed structured data: member type grammar, reference closure   *)
(* and encodeType, conformance of JSON values to declared types, word      *)
(* encoding, hashStruct, the domain type rule and the final digest.        *)
(* Documents are tagged ASTs (see Numbers.tla).                            *)
(* Anchors: src/typeddata.rs.                                               *)
(***************************************************************************)
EXTENDS Bytes, Prim, Numbers, Tx, FiniteSets

\* ---- member type grammar (on ASCII codes) -----------------------------------
\* kinds: [k |-> "bool"|"address"|"string"], [k |-> "bytes", n |-> 0..32] (0: dynamic),
\*        [k |-> "uint"|"int", n |-> 8..256], [k |-> "struct", name |-> <string>],
\*        [k |-> "array", of |-> kind, size |-> -1 (dynamic) | k],
\*        [k |-> "open"] for spellings EIP-712 does not define (uint08, T[+2], T[02], names with brackets...)
Codes(s) == StrToUtf8(s)
OpenKind == [k |-> "open"]

StartsWith(cs, pre) == Len(cs) >= Len(pre) /\ SubSeq(cs, 1, Len(pre)) = pre
\* a canonical decimal numeral (of any length): digits, no leading zero, no sign
CanonDec(ds) == Len(ds) >= 1 /\ AllDigit(ds) /\ (Len(ds) = 1 \/ ds[1] # 48)
\* ... that is small enough to be used as a number by this specification
CanonNat(ds) == CanonDec(ds) /\ Len(ds) <= 9
NatOf(ds) == BnToNat(BnFromDec(DecVals(ds)))
\* the widths: a canonical numeral of at most 3 digits in the given set
WidthIn(ds, set) == CanonDec(ds) /\ Len(ds) <= 3 /\ NatOf(ds) \in set

IsIdentChar(c) == IsDigitCode(c) \/ (c >= 65 /\ c <= 90) \/ (c >= 97 /\ c <= 122) \/ c = 95 \/ c = 36
IsIdent(cs) == Len(cs) >= 1 /\ ~IsDigitCode(cs[1]) /\ \A i \in 1..Len(cs) : IsIdentChar(cs[i])

AtomOrStruct(cs) ==
  LET s == Utf8ToStr(cs)
      sized(pre) == StartsWith(cs, Codes(pre)) /\ Len(cs) > Len(Codes(pre))
                    /\ AllDigit(SubSeq(cs, Len(Codes(pre)) + 1, Len(cs)))
      num(pre) == SubSeq(cs, Len(Codes(pre)) + 1, Len(cs))
  IN
  IF s \in {"bool", "address", "string"} THEN [k |-> s]
  ELSE IF s = "bytes" THEN [k |-> "bytes", n |-> 0]
  \* bytesN / uintN / intN exist for the canonical numerals N of the standard widths only; every other name of that
  \* shape (uint7, uint0256, uint4294967552, bytes33, bytes032 ...) is an identifier like any other: the name of a struct
  ELSE IF sized("bytes") /\ WidthIn(num("bytes"), 1..32) THEN [k |-> "bytes", n |-> NatOf(num("bytes"))]
  ELSE IF sized("uint") /\ WidthIn(num("uint"), {8 * i : i \in 1..32}) THEN [k |-> "uint", n |-> NatOf(num("uint"))]
  ELSE IF sized("int") /\ WidthIn(num("int"), {8 * i : i \in 1..32}) THEN [k |-> "int", n |-> NatOf(num("int"))]
  ELSE IF IsIdent(cs) THEN [k |-> "struct", name |-> s]
  ELSE OpenKind

\* position of the last '[' (91), 0 if none
RECURSIVE LastOpen(_, _)
LastOpen(cs, i) == IF i = 0 THEN 0 ELSE IF cs[i] = 91 THEN i ELSE LastOpen(cs, i - 1)

RECURSIVE ParseType(_)
ParseType(cs) ==
  IF Len(cs) >= 1 /\ cs[Len(cs)] = 93 THEN                     \* ends with ']'
    LET o == LastOpen(cs, Len(cs)) IN
    IF o <= 1 THEN OpenKind
    ELSE LET inner == ParseType(SubSeq(cs, 1, o - 1))
             sz    == SubSeq(cs, o + 1, Len(cs) - 1)
         IN  IF inner.k = "open" THEN OpenKind
             ELSE IF sz = <<>> THEN [k |-> "array", of |-> inner, size |-> -1]
             ELSE IF CanonNat(sz) THEN [k |-> "array", of |-> inner, size |-> NatOf(sz)]
             \* a canonical size of ten or more digits: a fixed-size array type that no document of this
             \* specification has a value of (size -2, the numeral kept for printing)
             ELSE IF CanonDec(sz) THEN [k |-> "array", of |-> inner, size |-> -2, numeral |-> sz]
             ELSE OpenKind
  ELSE AtomOrStruct(cs)

RECURSIVE PrintType(_)
PrintType(kd) ==
  IF kd.k \in {"bool", "address", "string"} THEN Codes(kd.k)
  ELSE IF kd.k = "bytes" THEN Codes("bytes") \o (IF kd.n = 0 THEN <<>> ELSE NatDecCodes(kd.n))
  ELSE IF kd.k \in {"uint", "int"} THEN Codes(kd.k) \o NatDecCodes(kd.n)
  ELSE IF kd.k = "struct" THEN Codes(kd.name)
  ELSE PrintType(kd.of) \o <<91>> \o (IF kd.size = -1 THEN <<>> ELSE IF kd.size = -2 THEN kd.numeral ELSE NatDecCodes(kd.size)) \o <<93>>

RECURSIVE StructRef(_)
\* the struct name a kind refers to (through arrays), or "" for none
StructRef(kd) == IF kd.k = "struct" THEN kd.name ELSE IF kd.k = "array" THEN StructRef(kd.of) ELSE ""
RECURSIVE HasOpen(_)
HasOpen(kd) == kd.k = "open" \/ (kd.k = "array" /\ HasOpen(kd.of))

\* ---- the `types` table ----------------------------------------------------------
\* types: function  type name -> sequence of [name |-> string, kind |-> kind]
MemberOf(node) ==
  [name |-> ObjGet(node, "name").v, kind |-> ParseType(Codes(ObjGet(node, "type").v))]
WellShapedMember(node) ==
  /\ node.k = "obj" /\ ~DupKeys(node)
  /\ HasKey(node, "name") /\ ObjGet(node, "name").k = "str"
  /\ HasKey(node, "type") /\ ObjGet(node, "type").k = "str"
WellShapedTypes(node) ==
  /\ node.k = "obj" /\ ~DupKeys(node)
  /\ \A i \in 1..Len(node.v) :
       /\ node.v[i][2].k = "arr"
       /\ \A m \in 1..Len(node.v[i][2].v) : WellShapedMember(node.v[i][2].v[m])
TypesOf(node) ==
  [t \in ObjKeys(node) |-> LET ms == ObjGet(node, t).v IN Mat([m \in 1..Len(ms) |-> MemberOf(ms[m])])]

Refs(types, t) == {StructRef(types[t][m].kind) : m \in 1..Len(types[t])} \ {""}

\* transitive closure of references from t (declaratively: least fixpoint), including
\* names that are referenced but not defined
RECURSIVE Reach(_, _, _)
Reach(types, frontier, seen) ==
  IF frontier = {} THEN seen
  ELSE LET new == UNION {IF x \in DOMAIN types THEN Refs(types, x) ELSE {} : x \in frontier} \ (seen \cup frontier)
       IN  Reach(types, new, seen \cup frontier)
Deps(types, t) == Reach(types, Refs(types, t), {}) \ {t}

\* names in byte-wise lexicographic order
RECURSIVE SortNames(_)
SortNames(S) ==
  IF S = {} THEN <<>>
  ELSE LET m == CHOOSE x \in S : \A y \in S : LexCmp(Codes(x), Codes(y)) <= 0
       IN  <<m>> \o SortNames(S \ {m})

DefOf(types, t) ==
  LET ms == types[t]
      mem(m) == PrintType(ms[m].kind) \o <<32>> \o Codes(ms[m].name)
  IN  Codes(t) \o <<40>> \o Concat([m \in 1..Len(ms) |-> (IF m = 1 THEN <<>> ELSE <<44>>) \o mem(m)]) \o <<41>>

\* encodeType(t): t's definition, then every transitively referenced struct type exactly
\* once in name order; t itself never repeated
EncodeType(types, t) ==
  LET ds == SortNames(Deps(types, t))
  IN  DefOf(types, t) \o Concat([i \in 1..Len(ds) |-> DefOf(types, ds[i])])
TypeHash(types, t) == Keccak256(EncodeType(types, t))

\* is every type needed for hashing t defined, and free of undefined spellings?
ClosureDefined(types, t) == t \in DOMAIN types /\ Deps(types, t) \subseteq DOMAIN types
ClosureOpen(types, t) ==
  \E x \in ({t} \cup Deps(types, t)) \cap DOMAIN types :
    \/ ~IsIdent(Codes(x))
    \/ \E m \in 1..Len(types[x]) : HasOpen(types[x][m].kind) \/ ~IsIdent(Codes(types[x][m].name))

\* ---- value encoding ---------------------------------------------------------------
\* result [c |-> "accept"|"reject"|"either"|"open", w |-> 32-byte word, why]
Word(c, w)   == [c |-> c, w |-> w, why |-> ""]
Refuse(why)  == [c |-> "reject", w |-> <<>>, why |-> why]
OpenWord     == [c |-> "open", w |-> <<>>, why |-> ""]

RECURSIVE EncodeValue(_, _, _), HashStructOf(_, _, _)
EncodeValue(types, kd, node) ==
  IF kd.k = "bytes" THEN
    LET b == ClassBytes(node) IN
    IF b.c = "reject" THEN Refuse(IF node.k = "str" THEN "bad_hex" ELSE "wrong_kind")
    ELSE IF kd.n = 0 THEN Word(b.c, Keccak256(b.v))
    ELSE IF Len(b.v) # kd.n THEN Refuse("bytesN_len")
    ELSE Word(b.c, PadRight(b.v, 32))
  ELSE IF kd.k = "uint" THEN
    LET u == ClassUint(node, kd.n) IN
    IF u.c = "reject" THEN Refuse(IF u.why = "negative" THEN "uint_negative" ELSE IF u.why = "too_large" THEN "uint_range" ELSE u.why)
    ELSE Word(u.c, BnFixed(u.v, 32))
  ELSE IF kd.k = "int" THEN
    LET s == ClassInt(node, kd.n) IN
    IF s.c = "reject" THEN Refuse(s.why)
    ELSE Word(s.c, IF s.neg THEN BnNeg256(s.v) ELSE BnFixed(s.v, 32))
  ELSE IF kd.k = "bool" THEN
    (IF node.k = "bool" THEN Word("accept", PadLeft(<<IF node.v THEN 1 ELSE 0>>, 32)) ELSE Refuse("wrong_kind"))
  ELSE IF kd.k = "address" THEN
    LET a == ClassAddress(node) IN
    IF a.c = "reject" THEN Refuse(IF node.k = "str" THEN "bad_address" ELSE "wrong_kind") ELSE Word(a.c, PadLeft(a.v, 32))
  ELSE IF kd.k = "string" THEN
    (IF node.k = "str" THEN Word("accept", Keccak256(StrToUtf8(node.v))) ELSE Refuse("wrong_kind"))
  ELSE IF kd.k = "struct" THEN
    (IF node.k # "obj" THEN Refuse("wrong_kind") ELSE HashStructOf(types, kd.name, node))
  ELSE IF kd.k = "array" THEN
    (IF node.k # "arr" THEN Refuse("wrong_kind")
     ELSE IF kd.size = -2 \/ (kd.size >= 0 /\ Len(node.v) # kd.size) THEN Refuse("fixed_array_len")
     ELSE LET es == Mat([i \in 1..Len(node.v) |-> EncodeValue(types, kd.of, node.v[i])])
              c  == Worst({es[i].c : i \in 1..Len(es)})
          IN  IF c = "reject" THEN es[CHOOSE i \in 1..Len(es) : es[i].c = "reject"]
              ELSE IF c = "open" THEN OpenWord
              ELSE Word(c, Keccak256(Concat([i \in 1..Len(es) |-> es[i].w]))))
  ELSE OpenWord

\* hashStruct(t, obj) = keccak(typeHash(t) || word of each member in declaration order)
HashStructOf(types, t, node) ==
  IF ~(t \in DOMAIN types) \/ ~ClosureDefined(types, t) THEN Refuse("undefined_type")
  ELSE IF ClosureOpen(types, t) \/ DupKeys(node) THEN OpenWord
  ELSE
  LET ms == types[t]
      names == {ms[m].name : m \in 1..Len(ms)}
  IN
  IF \E m \in 1..Len(ms) : ~HasKey(node, ms[m].name) THEN Refuse("missing_member")
  ELSE IF ObjKeys(node) # names THEN Refuse("extra_member")
  \* a struct type that declares a member name twice: what its encoding is, is undefined (open) - but only for an object
  \* with exactly the declared names; a missing or an undeclared member is refused like anywhere else
  ELSE IF Cardinality(names) # Len(ms) THEN OpenWord
  ELSE
  LET es == Mat([m \in 1..Len(ms) |-> EncodeValue(types, ms[m].kind, ObjGet(node, ms[m].name))])
      c  == Worst({es[m].c : m \in 1..Len(es)})
  IN  IF c = "reject" THEN es[CHOOSE m \in 1..Len(es) : es[m].c = "reject"]
      ELSE IF c = "open" THEN OpenWord
      ELSE Word(c, Keccak256(TypeHash(types, t) \o Concat([m \in 1..Len(es) |-> es[m].w])))

\* ---- the domain type rule ------------------------------------------------------------
StdDomain == << [name |-> "name", kind |-> [k |-> "string"]],
                [name |-> "version", kind |-> [k |-> "string"]],
                [name |-> "chainId", kind |-> [k |-> "uint", n |-> 256]],
                [name |-> "verifyingContract", kind |-> [k |-> "address"]],
                [name |-> "salt", kind |-> [k |-> "bytes", n |-> 32]] >>

\* ms is a non-empty subsequence of StdDomain (each standard member at most once, in
\* order, with exactly the standard type)
RECURSIVE IsSubseqFrom(_, _, _)
IsSubseqFrom(ms, i, j) ==          \* ms[i..] embeds in StdDomain[j..]
  IF i > Len(ms) THEN TRUE
  ELSE IF j > Len(StdDomain) THEN FALSE
  ELSE IF ms[i] = StdDomain[j] THEN IsSubseqFrom(ms, i + 1, j + 1)
  ELSE IsSubseqFrom(ms, i, j + 1)
WellFormedDomain(ms) == ms # <<>> /\ IsSubseqFrom(ms, 1, 1)

\* ---- the whole document ----------------------------------------------------------------
\* [c |-> "accept"|"either" , domsep, msghash, digest] | [c |-> "reject", why] | [c |-> "open"]
TypedDataOutcome(doc) ==
  IF doc.k # "obj" \/ DupKeys(doc) THEN [c |-> "open", why |-> "shape"]
  ELSE IF ~(HasKey(doc, "types") /\ HasKey(doc, "primaryType") /\ HasKey(doc, "domain") /\ HasKey(doc, "message"))
    THEN [c |-> "open", why |-> "missing_top_level_key"]
  ELSE IF ~WellShapedTypes(ObjGet(doc, "types")) \/ ObjGet(doc, "primaryType").k # "str"
          \/ ObjGet(doc, "domain").k # "obj" \/ ObjGet(doc, "message").k # "obj"
    THEN [c |-> "open", why |-> "shape"]
  ELSE
  LET types == TypesOf(ObjGet(doc, "types"))
      prim  == ObjGet(doc, "primaryType").v
  IN
  IF ~("EIP712Domain" \in DOMAIN types) THEN [c |-> "reject", why |-> "no_domain_type"]
  \* (a member whose type text is no type at all - blanks, signs, brackets out of place - is certainly not the
  \* standard type of a standard field: C20 refuses it like any other foreign type)
  ELSE IF ~WellFormedDomain(types["EIP712Domain"]) THEN [c |-> "reject", why |-> "domain_type"]
  ELSE
  LET ds == HashStructOf(types, "EIP712Domain", ObjGet(doc, "domain"))
      ms == HashStructOf(types, prim, ObjGet(doc, "message"))
      c  == Worst({ds.c, ms.c})
  IN  IF c = "reject" THEN [c |-> "reject", why |-> IF ds.c = "reject" THEN ds.why ELSE ms.why]
      ELSE IF c = "open" THEN [c |-> "open", why |-> "open_class"]
      ELSE [c |-> c, why |-> "", domsep |-> ds.w, msghash |-> ms.w,
            digest |-> Keccak256(<<25, 1>> \o ds.w \o ms.w)]
=============================================================================
