SPECIFICATION Spec
CONSTANT NW = 0
INVARIANT EmitInv
CHECK_DEADLOCK FALSE
