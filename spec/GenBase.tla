------------------------------- MODULE GenBase -------------------------------
(* Generator harness: TLC walks the workload 1..Count, ItemAt(n) (operators  *)
(* of the instantiating Gen_* module, built from the specification's own     *)
(* operators) one state per item and emits each as a JSON line.  The driver  *)
(* runs HDW_SLICES processes in parallel, process HDW_SLICE walking every     *)
(* HDW_SLICES-th item.                                                       *)
LOCAL INSTANCE Naturals
LOCAL INSTANCE Sequences
LOCAL INSTANCE HdwIO
LOCAL INSTANCE IOUtils
CONSTANT Count, ItemAt(_),
         Histories      \* number of HISTORY items appended to the workload (0: none)
VARIABLE n
LOCAL Slice  == IF "HDW_SLICE" \in DOMAIN IOEnv THEN atoi(IOEnv.HDW_SLICE) ELSE 0
LOCAL Slices == IF "HDW_SLICES" \in DOMAIN IOEnv THEN atoi(IOEnv.HDW_SLICES) ELSE 1
\* process k takes the items k+1, k+1+Slices, ... (round robin, so that expensive families are shared);
\* n is the item just emitted, Slice - Slices + 1 .. 0 before the first
\* HISTORIES: an item "seq" is a sequence of library calls made on ONE thread of one process, taken from the module's own
\* workload: six consecutive items from a pseudo-random position (neighbours in a family are related inputs) and
\* four from elsewhere.  The judge validates every step as if it had been made alone (Judge!JudgeSeq).
LOCAL LightOps == {"mnemonic.parse", "mnemonic.seed", "path.parse", "path.for_index", "hdk.derive", "key.new", "key.sign", "sig.parse",
                   "message", "tx.sign", "tx.encode", "typeddata", "eip712.encode_type", "eip712.member_kind",
                   "rlp.len", "rlp.bytes", "rlp.uint", "rlp.list"}
LOCAL Light(it) == it.op \in LightOps /\ ~("big" \in DOMAIN it.in) /\ ~("sid" \in DOMAIN it)
LOCAL HistPick(j, k) == ItemAt(1 + (((j * 7919) + (IF k <= 6 THEN k ELSE (k * 104729) + (j * 31))) % Count))
LOCAL HistAt(j) ==
  LET its == SelectSeq([k \in 1..10 |-> HistPick(j, k)], Light)
  IN  [i |-> 0, op |-> "seq", fam |-> "history", in |-> [steps |-> [k \in 1..Len(its) |-> [op |-> its[k].op, in |-> its[k].in]]]]
LOCAL Total == Count + Histories
LOCAL AnyItemAt(g) == IF g <= Count THEN ItemAt(g) ELSE HistAt(g - Count)
GenInit == n = Slice + 1 - Slices
GenNext == n + Slices <= Total /\ n' = n + Slices
GenSpec == GenInit /\ [][GenNext]_n
\* checked as an invariant: emission happens exactly once per distinct state
GenEmit == n >= 1 => Emit("workload", [AnyItemAt(n) EXCEPT !.i = n])
=============================================================================
