------------------------------- MODULE GenBase -------------------------------
(* Generator harness: TLC walks the workload 1..Count, ItemAt(n) (operators  *)
(* of the instantiating Gen_* module, built from the specification's own     *)
(* operators) one state per item and emits each as a JSON line.  The driver  *)
(* runs HDW_SLICES processes in parallel, process HDW_SLICE walking every     *)
(* HDW_SLICES-th item.                                                       *)
LOCAL INSTANCE Naturals
LOCAL INSTANCE Sequences
LOCAL INSTANCE HdwIO
LOCAL INSTANCE IOUtils
CONSTANT Count, ItemAt(_)
VARIABLE n
LOCAL Slice  == IF "HDW_SLICE" \in DOMAIN IOEnv THEN atoi(IOEnv.HDW_SLICE) ELSE 0
LOCAL Slices == IF "HDW_SLICES" \in DOMAIN IOEnv THEN atoi(IOEnv.HDW_SLICES) ELSE 1
\* process k takes the items k+1, k+1+Slices, ... (round robin, so that expensive families are shared);
\* n is the item just emitted, Slice - Slices + 1 .. 0 before the first
GenInit == n = Slice + 1 - Slices
GenNext == n + Slices <= Count /\ n' = n + Slices
GenSpec == GenInit /\ [][GenNext]_n
\* checked as an invariant: emission happens exactly once per distinct state
GenEmit == n >= 1 => Emit("workload", [ItemAt(n) EXCEPT !.i = n])
=============================================================================
