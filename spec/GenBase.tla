------------------------------- MODULE GenBase -------------------------------
(* Generator harness: TLC walks the workload 1..Count, ItemAt(n) (operators  *)
(* of the instantiating Gen_* module, built from the specification's own     *)
(* operators) one state per item and emits each as a JSON line.  The driver  *)
(* runs HDW_SLICES processes in parallel, process HDW_SLICE walking its      *)
(* contiguous share.                                                         *)
LOCAL INSTANCE Naturals
LOCAL INSTANCE Sequences
LOCAL INSTANCE HdwIO
LOCAL INSTANCE IOUtils
CONSTANT Count, ItemAt(_)
VARIABLE n
LOCAL Slice  == IF "HDW_SLICE" \in DOMAIN IOEnv THEN atoi(IOEnv.HDW_SLICE) ELSE 0
LOCAL Slices == IF "HDW_SLICES" \in DOMAIN IOEnv THEN atoi(IOEnv.HDW_SLICES) ELSE 1
LOCAL Lo == (Slice * Count) \div Slices
LOCAL Hi == ((Slice + 1) * Count) \div Slices
GenInit == n = Lo
GenNext == n < Hi /\ n' = n + 1
GenSpec == GenInit /\ [][GenNext]_n
\* checked as an invariant: emission happens exactly once per distinct state
GenEmit == n > Lo => Emit("workload", [ItemAt(n) EXCEPT !.i = n])
=============================================================================
