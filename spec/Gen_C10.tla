------------------------------ MODULE Gen_C10 ------------------------------
(* Workload for C10: personal messages of every length 0..Lmax, every single  *)
(* byte value, non-UTF-8 content, and lengths at the powers of ten.           *)
EXTENDS DocAst, IOUtils, TLC
Thorough == "VERIF_TIER" \in DOMAIN IOEnv /\ IOEnv.VERIF_TIER = "thorough"
Lmax == 1100
Msg(in, fam) == [i |-> 0, op |-> "message", fam |-> fam, in |-> in]
LenAt(j) == Msg([data |-> BytesToHex([i \in 1..(j - 1) |-> (i * 31 + j) % 256])], "lengths")
ByteAt(j) == Msg([data |-> BytesToHex(<<j - 1>>)], "bytes")
Special == <<<<255, 254, 253>>, <<192, 128>>, <<237, 160, 128>>, <<0>>, <<10>>, <<13, 10>>, <<32, 32>>, <<49, 50>>,
             <<240, 159, 152, 128>>, <<226, 128>>, Rep(46, 48)>>
SpecialAt(j) == Msg([data |-> BytesToHex(Special[j])], "special")
BigLens == IF Thorough THEN <<9999, 10000, 10001, 99999, 100000, 100001, 999999, 1000000, 1000001>>
           ELSE <<9999, 10000, 10001, 99999, 100000, 100001>>
BigAt(j) == Msg([big |-> [rep |-> BigLens[j], pat |-> "5a"]], "big")
O1 == Lmax + 1
O2 == O1 + 256
O3 == O2 + Len(Special)
Count == O3 + Len(BigLens)
ItemAt(g) ==
  IF g <= O1 THEN LenAt(g)
  ELSE IF g <= O2 THEN ByteAt(g - O1)
  ELSE IF g <= O3 THEN SpecialAt(g - O2)
  ELSE BigAt(g - O3)
VARIABLE n
INSTANCE GenBase
=============================================================================
