------------------------------ MODULE Gen_C10 ------------------------------
(* Workload for C10: personal messages of every length 0..Lmax, every single  *)
(* byte value, non-UTF-8 content, and lengths at the powers of ten.           *)
EXTENDS DocAst, IOUtils, TLC
Thorough == "VERIF_TIER" \in DOMAIN IOEnv /\ IOEnv.VERIF_TIER = "thorough"
Lmax == 1100
Msg(in, fam) == [i |-> 0, op |-> "message", fam |-> fam, in |-> in]
LenAt(j) == Msg([data |-> BytesToHex([i \in 1..(j - 1) |-> (i * 31 + j) % 256])], "lengths")
ByteAt(j) == Msg([data |-> BytesToHex(<<j - 1>>)], "bytes")
Special == <<<<255, 254, 253>>, <<192, 128>>, <<237, 160, 128>>, <<0>>, <<10>>, <<13, 10>>, <<32, 32>>, <<49, 50>>,
             <<240, 159, 152, 128>>, <<226, 128>>, Rep(46, 48)>>
SpecialAt(j) == Msg([data |-> BytesToHex(Special[j])], "special")
BigLens == IF Thorough THEN <<9999, 10000, 10001, 99999, 100000, 100001, 999999, 1000000, 1000001>>
           ELSE <<9999, 10000, 10001, 99999, 100000, 100001>>
BigAt(j) == Msg([big |-> [rep |-> BigLens[j], pat |-> "5a"]], "big")
\* histories (one thread): short messages before and after a message larger than 2^24 / 2^25 bytes
BigHistSizes == <<16781313, 33554433>>
NBigHist == IF Thorough THEN 2 ELSE 1
BigHistAt(j) ==
  LET small(k) == [op |-> "message", in |-> [data |-> BytesToHex([i \in 1..(5 + k) |-> (i * 13 + k) % 256])]]
      big      == [op |-> "message", in |-> [big |-> [rep |-> BigHistSizes[j], pat |-> "c3"]]]
  IN  [i |-> 0, op |-> "seq", fam |-> "history_with_huge_message", in |-> [steps |-> <<small(1), big, small(2), small(1), big, small(3)>>]]
O1 == Lmax + 1
O2 == O1 + 256
O3 == O2 + Len(Special)
O4 == O3 + Len(BigLens)
Count == O4 + NBigHist
ItemAt(g) ==
  IF g <= O1 THEN LenAt(g)
  ELSE IF g <= O2 THEN ByteAt(g - O1)
  ELSE IF g <= O3 THEN SpecialAt(g - O2)
  ELSE IF g <= O4 THEN BigAt(g - O3)
  ELSE BigHistAt(g - O4)
Histories == IF "VERIF_TIER" \in DOMAIN IOEnv /\ IOEnv.VERIF_TIER = "thorough" THEN 300 ELSE 40
VARIABLE n
INSTANCE GenBase
=============================================================================
