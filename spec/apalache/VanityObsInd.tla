---------------------------- MODULE VanityObsInd ----------------------------
(***************************************************************************)
(* The vanity search machine TOGETHER WITH THE JUDGE'S OBSERVER, in typed  *)
(* form for Apalache and WITHOUT the bound on the number of entropy        *)
(* requests (real searches make hundreds of requests; TLC's exhaustive     *)
(* runs of MC_Vanity stop at 4 or 5).  The real machine is that of         *)
(* MC_Vanity / VanityInd (threaded mode, N > 0); the observer is the state *)
(* of Vanity.tla in a total-function representation:                       *)
(*    oMain                       Vanity's s.main                          *)
(*    oSeen  (set of workers)     DOMAIN s.cand \ {s.mainT}                *)
(*    oCand, oSt (on all threads) s.cand, s.st where defined               *)
(* and the operators MayRequest / MayPrint / MayFail / MustHaveExited are  *)
(* those of Vanity.tla rewritten over that representation (MC_Vanity checks *)
(* with TLC, in every reachable state for N <= 3, that they agree with the *)
(* originals: invariant ObsTranscriptionAgrees).                           *)
(*                                                                         *)
(* IndInv is inductive (Init => IndInv, IndInv /\ Next => IndInv') and     *)
(* contains JudgeSound: whatever the machine does - however many requests  *)
(* it makes - the judge's fold admits it: every request passes the guard,  *)
(* a printed phrase satisfies MayPrint, a failure satisfies MayFail, a     *)
(* pending message means the judge expects an exit.                        *)
(***************************************************************************)
EXTENDS Integers, Sequences, FiniteSets, Apalache, VanityObsOps

CONSTANTS
  \* @type: Int;
  N,
  \* @type: Int;
  K

VARIABLES
  \* @type: Set(Int);
  matching,
  \* @type: Str;
  main,
  \* @type: Int -> Str;
  wst,
  \* @type: Int -> Int;
  cand,
  \* @type: Seq({ok: Bool, p: Int, w: Int});
  chan,
  \* @type: Int;
  out,
  \* @type: Str;
  oMain,
  \* @type: Set(Int);
  oSeen,
  \* @type: Int -> Int;
  oCand,
  \* @type: Int -> Str;
  oSt,
  \* @type: Bool;
  guardOk

Workers == 1..N
Threads == 0..N
WStates == {"idle", "run", "req", "matched", "refused", "sentok", "senterr"}
MStates == {"init", "wait", "printed", "failed"}
OStates == {"none", "spawned", "run", "refused"}

ConstInit == N = 3 /\ K = 3
ConstInit2 == N = 2 /\ K = 3
ConstInit4 == N = 4 /\ K = 3

\* ---- the observer's operators (VanityObsOps.tla) ---------------------------------------------------
M0 == oCand[0]
CandOf(t) == OCandOf(oSeen, oCand, t)
MayRequest(t) == OMayRequest(matching, N, oMain, oSeen, oCand, oSt, t)
MayPrint(p) == OMayPrint(matching, N, oMain, oSeen, oCand, oSt, p)
MayFail == OMayFail(oMain, oSeen, oSt)
MustHaveExited == OMustHaveExited(matching, N, oMain, oSeen, oCand, oSt)

\* ---- the machine, each environment answer also advancing the observer -------------------------
Init ==
  /\ matching \in SUBSET (1..K)
  /\ main = "init" /\ wst = [w \in Workers |-> "idle"] /\ cand = [t \in Threads |-> 0]
  /\ chan = <<>> /\ out = 0
  /\ oMain = "init" /\ oSeen = {} /\ oCand = [t \in Threads |-> 0] /\ oSt = [t \in Threads |-> "none"] /\ guardOk = TRUE

MainGrant ==
  \E p \in 1..K :
    /\ main = "init"
    /\ cand' = [t \in Threads |-> p] /\ main' = "wait" /\ wst' = [w \in Workers |-> "run"]
    /\ oMain' = "wait" /\ oCand' = [oCand EXCEPT ![0] = p] /\ oSt' = [oSt EXCEPT ![0] = "spawned"]
    /\ UNCHANGED <<matching, chan, out, oSeen, guardOk>>
MainRefuse ==
  /\ main = "init" /\ main' = "failed" /\ oMain' = "failed"
  /\ UNCHANGED <<matching, wst, cand, chan, out, oSeen, oCand, oSt, guardOk>>
Alive == main = "wait"
WorkerCheck ==
  \E w \in Workers :
    /\ Alive /\ wst[w] = "run"
    /\ wst' = [wst EXCEPT ![w] = IF cand[w] \in matching THEN "matched" ELSE "req"]
    /\ UNCHANGED <<matching, main, cand, chan, out, oMain, oSeen, oCand, oSt, guardOk>>
WorkerSendOk ==
  \E w \in Workers :
    /\ Alive /\ wst[w] = "matched"
    /\ chan' = Append(chan, [ok |-> TRUE, p |-> cand[w], w |-> w]) /\ wst' = [wst EXCEPT ![w] = "sentok"]
    /\ UNCHANGED <<matching, main, cand, out, oMain, oSeen, oCand, oSt, guardOk>>
EnvGrant ==
  \E w \in Workers : \E p \in 1..K :
    /\ Alive /\ wst[w] = "req"
    /\ guardOk' = (guardOk /\ MayRequest(w))
    /\ cand' = [cand EXCEPT ![w] = p] /\ wst' = [wst EXCEPT ![w] = "run"]
    /\ oSeen' = oSeen \union {w} /\ oCand' = OGrantCand(oCand, w, p) /\ oSt' = OGrantSt(oSt, w)
    /\ UNCHANGED <<matching, main, chan, out, oMain>>
EnvRefuse ==
  \E w \in Workers :
    /\ Alive /\ wst[w] = "req"
    /\ guardOk' = (guardOk /\ MayRequest(w))
    /\ wst' = [wst EXCEPT ![w] = "refused"]
    /\ oSeen' = oSeen \union {w} /\ oCand' = ORefuseCand(oSeen, oCand, w) /\ oSt' = ORefuseSt(oSt, w)
    /\ UNCHANGED <<matching, main, cand, chan, out, oMain>>
WorkerSendErr ==
  \E w \in Workers :
    /\ Alive /\ wst[w] = "refused"
    /\ chan' = Append(chan, [ok |-> FALSE, p |-> 0, w |-> w]) /\ wst' = [wst EXCEPT ![w] = "senterr"]
    /\ UNCHANGED <<matching, main, cand, out, oMain, oSeen, oCand, oSt, guardOk>>
MainRecv ==
  /\ main = "wait" /\ Len(chan) > 0
  /\ IF Head(chan).ok THEN main' = "printed" /\ out' = Head(chan).p ELSE main' = "failed" /\ UNCHANGED out
  /\ UNCHANGED <<matching, wst, cand, chan, oMain, oSeen, oCand, oSt, guardOk>>
Done == main \in {"printed", "failed"} /\ UNCHANGED <<matching, main, wst, cand, chan, out, oMain, oSeen, oCand, oSt, guardOk>>

Next == MainGrant \/ MainRefuse \/ WorkerCheck \/ WorkerSendOk \/ EnvGrant \/ EnvRefuse \/ WorkerSendErr \/ MainRecv \/ Done

\* ---- what is to be shown ------------------------------------------------------------------------
JudgeSound ==
  /\ guardOk
  /\ (main = "printed" => MayPrint(out))
  /\ (main = "failed" => MayFail)
  /\ (Len(chan) > 0 => MustHaveExited)

\* an Ok message / a matched worker is explained by the observer: its sender is a seen worker whose observed candidate is
\* the phrase and who was never refused, or an unseen worker (who still holds m0; then fewer than N workers are seen)
Explains(w, p) ==
  /\ p \in matching /\ cand[w] = p
  /\ (w \in oSeen => oCand[w] = p /\ oSt[w] = "run")
  /\ (w \notin oSeen => p = M0)

IndInv ==
  /\ matching \subseteq 1..K
  /\ main \in MStates /\ oMain \in {"init", "wait", "failed"}
  /\ DOMAIN wst = Workers /\ DOMAIN cand = Threads /\ DOMAIN oCand = Threads /\ DOMAIN oSt = Threads
  /\ \A w \in Workers : wst[w] \in WStates
  /\ \A t \in Threads : cand[t] \in 0..K /\ oCand[t] \in 0..K /\ oSt[t] \in OStates
  /\ oSeen \subseteq Workers
  /\ guardOk
  \* before and at the main generation
  /\ (main = "init" => oMain = "init" /\ (\A w \in Workers : wst[w] = "idle") /\ Len(chan) = 0 /\ oSeen = {})
  /\ (oMain = "init" => main = "init")
  /\ (oMain = "failed" => main = "failed" /\ Len(chan) = 0 /\ oSeen = {} /\ (\A w \in Workers : wst[w] = "idle"))
  /\ (main # "init" /\ oMain = "wait" => \A w \in Workers : wst[w] # "idle")
  /\ (main \in {"wait", "printed"} => oMain = "wait")
  /\ (main # "printed" => out = 0)
  \* coupling of candidates: seen workers are observed exactly, unseen workers still hold m0
  /\ (oMain = "wait" => cand[0] = M0 /\ M0 \in 1..K)
  /\ (oMain = "wait" => \A w \in Workers : IF w \in oSeen THEN oCand[w] = cand[w] ELSE cand[w] = M0)
  \* coupling of states
  /\ \A w \in Workers : (w \in oSeen /\ oSt[w] = "refused") <=> wst[w] \in {"refused", "senterr"}
  /\ \A w \in oSeen : oSt[w] \in {"run", "refused"}
  /\ \A w \in Workers : wst[w] = "req" => cand[w] \notin matching
  /\ \A w \in Workers : wst[w] \in {"matched", "sentok"} => cand[w] \in matching
  \* the channel: one message per worker that has sent, in some order; Ok messages are explained, Err messages come
  \* from workers seen as refused
  /\ \A i \in DOMAIN chan : chan[i].w \in Workers
        /\ (chan[i].ok => wst[chan[i].w] = "sentok" /\ Explains(chan[i].w, chan[i].p))
        /\ (~chan[i].ok => wst[chan[i].w] = "senterr")
  /\ (main = "printed" => \E w \in Workers : wst[w] = "sentok" /\ Explains(w, out))
  /\ (main = "failed" /\ oMain = "wait" => \E w \in Workers : wst[w] = "senterr")
  /\ JudgeSound

\* @type: () => Bool;
IndInit ==
  /\ matching = Gen(4) /\ main = Gen(1) /\ wst = Gen(6) /\ cand = Gen(7) /\ chan = Gen(6) /\ out = Gen(1)
  /\ oMain = Gen(1) /\ oSeen = Gen(6) /\ oCand = Gen(7) /\ oSt = Gen(7) /\ guardOk = Gen(1)
  /\ IndInv
=============================================================================
