----------------------------- MODULE VanityInd -----------------------------
(***************************************************************************)
(* The vanity search machine of MC_Vanity.tla (same actions: Check, Send,  *)
(* environment Grant / Refuse, main Recv) in a typed form for Apalache,    *)
(* WITHOUT the bound on the number of entropy requests.  IndInv is an      *)
(* inductive invariant:                                                    *)
(*     Init => IndInv          IndInv /\ Next => IndInv'                   *)
(* so PrintedIsGrantedMatch (a printed phrase matches the prefix and was   *)
(* granted by the entropy source) holds in every reachable state of a      *)
(* search with N workers, however long it runs.  TLC checks the same       *)
(* property (and the judge's soundness) with the request bound.            *)
(***************************************************************************)
EXTENDS Integers, Sequences, FiniteSets, Apalache

CONSTANTS
  \* @type: Int;
  N,
  \* @type: Int;
  K

VARIABLES
  \* @type: Set(Int);
  matching,
  \* @type: Str;
  main,
  \* @type: Int -> Str;
  wst,
  \* @type: Int -> Int;
  cand,
  \* @type: Seq({ok: Bool, p: Int});
  chan,
  \* @type: Int;
  out,
  \* @type: Set(Int);
  granted

Workers == 1..N
Threads == 0..N
WStates == {"idle", "run", "req", "matched", "refused", "sent"}
MStates == {"init", "wait", "printed", "failed"}

ConstInit == N = 3 /\ K = 3
ConstInit6 == N = 6 /\ K = 4

Init ==
  /\ matching \in SUBSET (1..K)
  /\ main = "init" /\ wst = [w \in Workers |-> "idle"] /\ cand = [t \in Threads |-> 0]
  /\ chan = <<>> /\ out = 0 /\ granted = {}

MainGrant ==
  \E p \in 1..K :
    /\ main = "init"
    /\ cand' = [t \in Threads |-> p] /\ main' = "wait" /\ wst' = [w \in Workers |-> "run"]
    /\ granted' = granted \union {p}
    /\ UNCHANGED <<matching, chan, out>>
MainRefuse == main = "init" /\ main' = "failed" /\ UNCHANGED <<matching, wst, cand, chan, out, granted>>
Alive == main = "wait"
WorkerCheck ==
  \E w \in Workers :
    /\ Alive /\ wst[w] = "run"
    /\ wst' = [wst EXCEPT ![w] = IF cand[w] \in matching THEN "matched" ELSE "req"]
    /\ UNCHANGED <<matching, main, cand, chan, out, granted>>
WorkerSendOk ==
  \E w \in Workers :
    /\ Alive /\ wst[w] = "matched"
    /\ chan' = Append(chan, [ok |-> TRUE, p |-> cand[w]]) /\ wst' = [wst EXCEPT ![w] = "sent"]
    /\ UNCHANGED <<matching, main, cand, out, granted>>
EnvGrant ==
  \E w \in Workers : \E p \in 1..K :
    /\ Alive /\ wst[w] = "req"
    /\ cand' = [cand EXCEPT ![w] = p] /\ wst' = [wst EXCEPT ![w] = "run"] /\ granted' = granted \union {p}
    /\ UNCHANGED <<matching, main, chan, out>>
EnvRefuse ==
  \E w \in Workers :
    /\ Alive /\ wst[w] = "req" /\ wst' = [wst EXCEPT ![w] = "refused"]
    /\ UNCHANGED <<matching, main, cand, chan, out, granted>>
WorkerSendErr ==
  \E w \in Workers :
    /\ Alive /\ wst[w] = "refused"
    /\ chan' = Append(chan, [ok |-> FALSE, p |-> 0]) /\ wst' = [wst EXCEPT ![w] = "sent"]
    /\ UNCHANGED <<matching, main, cand, out, granted>>
MainRecv ==
  /\ main = "wait" /\ Len(chan) > 0
  /\ IF Head(chan).ok THEN main' = "printed" /\ out' = Head(chan).p ELSE main' = "failed" /\ UNCHANGED out
  /\ UNCHANGED <<matching, wst, cand, chan, granted>>
\* stuttering so that terminated runs are not deadlocks for the symbolic checker
Done == main \in {"printed", "failed"} /\ UNCHANGED <<matching, main, wst, cand, chan, out, granted>>

Next == MainGrant \/ MainRefuse \/ WorkerCheck \/ WorkerSendOk \/ EnvGrant \/ EnvRefuse \/ WorkerSendErr \/ MainRecv \/ Done

PrintedIsGrantedMatch == main = "printed" => out \in matching /\ out \in granted

\* number of workers that have sent
Sent == Cardinality({w \in Workers : wst[w] = "sent"})
IndInv ==
  /\ matching \subseteq 1..K /\ granted \subseteq 1..K
  /\ main \in MStates
  /\ \A w \in Workers : wst[w] \in WStates
  /\ \A t \in Threads : cand[t] \in 0..K
  /\ DOMAIN wst = Workers /\ DOMAIN cand = Threads
  /\ Len(chan) = Sent
  /\ (main = "init" => (\A w \in Workers : wst[w] = "idle") /\ Len(chan) = 0 /\ granted = {} /\ (\A t \in Threads : cand[t] = 0))
  \* after the initial generation every candidate was granted
  /\ (main # "init" /\ (\E w \in Workers : wst[w] # "idle") => \A w \in Workers : cand[w] \in granted)
  /\ (\A w \in Workers : wst[w] = "idle") \/ (\A w \in Workers : wst[w] # "idle")
  /\ \A w \in Workers : wst[w] = "matched" => cand[w] \in matching
  \* every Ok message carries a granted, matching phrase
  /\ \A i \in DOMAIN chan : chan[i].ok => (chan[i].p \in matching /\ chan[i].p \in granted)
  /\ (main # "printed" => out = 0)
  /\ PrintedIsGrantedMatch

\* @type: () => Bool;
IndInit ==
  /\ matching = Gen(5) /\ main = Gen(1) /\ wst = Gen(7) /\ cand = Gen(8) /\ chan = Gen(7) /\ out = Gen(1) /\ granted = Gen(5)
  /\ IndInv
=============================================================================
