SPECIFICATION Spec
INVARIANT Total
INVARIANT Canonical
INVARIANT NoSignOrFraction
CHECK_DEADLOCK FALSE
