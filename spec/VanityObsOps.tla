---------------------------- MODULE VanityObsOps ----------------------------
(***************************************************************************)
(* The judge's observer of Vanity.tla (threaded vanity mode, main thread   *)
(* 0) over a total-function representation of its state - used by the      *)
(* Apalache proof VanityObsInd.tla; MC_Vanity checks with TLC that these    *)
(* operators agree with the originals in every reachable state             *)
(* (ObsTranscriptionAgrees).                                               *)
(*   oMain  s.main      oSeen  DOMAIN s.cand \ {s.mainT}                   *)
(*   oCand, oSt  s.cand, s.st (arbitrary outside oSeen \cup {0})           *)
(***************************************************************************)
EXTENDS Integers, FiniteSets

\* @type: (Set(Int), Int -> Int, Int) => Int;
OCandOf(oSeen, oCand, t) == IF t \in oSeen THEN oCand[t] ELSE oCand[0]
\* @type: (Set(Int), Int -> Str, Int) => Str;
OStOf(oSeen, oSt, t) == IF t \in oSeen THEN oSt[t] ELSE "run"
\* @type: (Set(Int), Int, Str, Set(Int), Int -> Int, Int -> Str, Int) => Bool;
OMayRequest(matching, n, oMain, oSeen, oCand, oSt, t) ==
  /\ oMain = "wait"
  /\ t # 0 /\ Cardinality(oSeen \union {t}) <= n
  /\ OStOf(oSeen, oSt, t) = "run"
  /\ OCandOf(oSeen, oCand, t) \notin matching
\* @type: (Set(Int), Int, Str, Set(Int), Int -> Int, Int -> Str, Int) => Bool;
OMayPrint(matching, n, oMain, oSeen, oCand, oSt, p) ==
  /\ oMain = "wait" /\ p \in matching
  /\ \/ \E t \in oSeen : oCand[t] = p /\ oSt[t] = "run"
     \/ p = oCand[0] /\ Cardinality(oSeen) < n
\* @type: (Str, Set(Int), Int -> Str) => Bool;
OMayFail(oMain, oSeen, oSt) ==
  \/ oMain = "failed"
  \/ oMain = "wait" /\ \E t \in oSeen : oSt[t] = "refused"
\* @type: (Set(Int), Int, Str, Set(Int), Int -> Int, Int -> Str) => Bool;
OMustHaveExited(matching, n, oMain, oSeen, oCand, oSt) ==
  \/ oMain = "failed"
  \/ \E t \in oSeen \union {0} : OMayPrint(matching, n, oMain, oSeen, oCand, oSt, oCand[t])
  \/ OMayFail(oMain, oSeen, oSt)
\* the observer's updates for an answer to worker w
\* @type: (Int -> Int, Int, Int) => (Int -> Int);
OGrantCand(oCand, w, p) == [oCand EXCEPT ![w] = p]
\* @type: (Int -> Str, Int) => (Int -> Str);
OGrantSt(oSt, w) == [oSt EXCEPT ![w] = "run"]
\* @type: (Set(Int), Int -> Int, Int) => (Int -> Int);
ORefuseCand(oSeen, oCand, w) == [oCand EXCEPT ![w] = OCandOf(oSeen, oCand, w)]
\* @type: (Int -> Str, Int) => (Int -> Str);
ORefuseSt(oSt, w) == [oSt EXCEPT ![w] = "refused"]
=============================================================================
