----------------------------- MODULE MC_Bip39 -----------------------------
(***************************************************************************)
(* Model-level check of the two bit-shuffling loops hdwallet is designed   *)
(* as, against the declarative BIP-39 correspondence of Bip39.tla.  The    *)
(* shuffle is data-oblivious, so it is run on SYMBOLIC bit tokens: word    *)
(* bit <<i, b>> (bit b of word i) and buffer bit p.  A check over tokens   *)
(* holds for all 2^128..2^256 entropies at once.                            *)
(*                                                                         *)
(*  Unpack (from_phrase_str): acc := (acc << 11) | word (64-bit register), *)
(*    bitOff += 11; while bitOff > 8: bitOff -= 8; seed[byteOff++] :=       *)
(*    (acc >> bitOff) & 0xff   -- then the low bitOff bits are the checksum *)
(*  Pack (to_phrase): word i := bits [11 i, 11 i + 11) read through a       *)
(*    64-bit big-endian window starting at byte (11 i) div 8.               *)
(*                                                                         *)
(* CONSTANT Table is the set of accepted word counts: the specified table  *)
(* {12,15,18,21,24} must satisfy every invariant; the table 12..24 (what   *)
(* `matches!(len, 12..=24)` accepts) must FAIL them (MC_Bip39_Range.cfg,   *)
(* run by the self-test: the check is not vacuous).                        *)
(***************************************************************************)
EXTENDS Bip39, FiniteSets, TLC

CONSTANT Table
TableStd   == {12, 15, 18, 21, 24}
TableRange == 12..24

SeedLen(n) == ((n * 11 * 32) \div 33) \div 8       \* mnemonic_to_byte_length

VARIABLES n,        \* word count of the phrase
          pc,       \* "start" | "word" | "emit" | "done" | "rejected" | "oob" | "pack" | "packed"
          w,        \* words consumed / produced
          acc,      \* the 64-bit register as a sequence of bit tokens (most significant first)
          bitOff, byteOff,
          seed,     \* unpacked bytes: each a sequence of 8 bit tokens
          words     \* packed words: each a sequence of 11 buffer-bit positions
vars == <<n, pc, w, acc, bitOff, byteOff, seed, words>>

Last64(s) == IF Len(s) > 64 THEN SubSeq(s, Len(s) - 63, Len(s)) ELSE s
\* the 8 tokens of (acc >> off) & 0xff
Window(a, off) == SubSeq(a, Len(a) - off - 7, Len(a) - off)

Init == /\ n \in 0..40 /\ pc = "start" /\ w = 0 /\ acc = <<>> /\ bitOff = 0 /\ byteOff = 0
        /\ seed = <<>> /\ words = <<>>

Guard == /\ pc = "start"
         /\ pc' = IF n \in Table THEN "word" ELSE "rejected"
         /\ UNCHANGED <<n, w, acc, bitOff, byteOff, seed, words>>

TakeWord == /\ pc = "word" /\ w < n
            /\ acc' = Last64(acc \o [b \in 1..11 |-> <<w, b - 1>>])
            /\ bitOff' = bitOff + 11 /\ w' = w + 1 /\ pc' = "emit"
            /\ UNCHANGED <<n, byteOff, seed, words>>

EmitByte == /\ pc = "emit" /\ bitOff > 8
            /\ IF byteOff >= SeedLen(n) THEN pc' = "oob" /\ UNCHANGED <<bitOff, byteOff, seed>>
               ELSE /\ bitOff' = bitOff - 8
                    /\ seed' = Append(seed, Window(acc, bitOff - 8))
                    /\ byteOff' = byteOff + 1 /\ pc' = "emit"
            /\ UNCHANGED <<n, w, acc, words>>

EmitDone == /\ pc = "emit" /\ bitOff <= 8
            /\ pc' = IF w = n THEN "done" ELSE "word"
            /\ UNCHANGED <<n, w, acc, bitOff, byteOff, seed, words>>

\* to_phrase on the buffer entropy || hash: bit position p of the buffer is the token p
PackWord == /\ pc \in {"done", "pack"} /\ Len(words) < ((SeedLen(n) * 8) \div 11) + 1
            /\ LET i == Len(words)
                   bo == i * 11
                   first == 8 * (bo \div 8)                 \* window = buffer bits first .. first + 63
                   shift == 64 - 11 - (bo % 8)
                   win == [k \in 1..64 |-> first + k - 1]
               IN  words' = Append(words, SubSeq(win, 64 - shift - 10, 64 - shift))
            /\ pc' = "pack"
            /\ UNCHANGED <<n, w, acc, bitOff, byteOff, seed>>
PackDone == /\ pc = "pack" /\ Len(words) = ((SeedLen(n) * 8) \div 11) + 1
            /\ pc' = "packed" /\ UNCHANGED <<n, w, acc, bitOff, byteOff, seed, words>>

Next == Guard \/ TakeWord \/ EmitByte \/ EmitDone \/ PackWord \/ PackDone
Spec == Init /\ [][Next]_vars

\* ---- invariants -------------------------------------------------------------
\* token of bit p of the concatenated indices
Tok(p) == <<p \div 11, p % 11>>

LengthTable == (pc = "rejected") => ~(n \in ValidCounts)
NoAcceptOutsideStandard == (pc \notin {"start", "rejected"}) => n \in ValidCounts
NeverOutOfBounds == pc # "oob"

UnpackCorrect ==
  pc = "done" =>
    /\ byteOff = EntBytes(n) /\ Len(seed) = EntBytes(n)
    /\ bitOff = CsBits(n)
    /\ \A k \in 1..Len(seed) : seed[k] = [b \in 1..8 |-> Tok(8 * (k - 1) + b - 1)]
    \* the low bitOff bits of acc are exactly the checksum bits ENT .. ENT + CS - 1
    /\ SubSeq(acc, Len(acc) - bitOff + 1, Len(acc)) = [b \in 1..bitOff |-> Tok(8 * EntBytes(n) + b - 1)]
    \* arithmetic of the table
    /\ 11 * n = 8 * EntBytes(n) + CsBits(n) /\ SeedLen(n) = EntBytes(n) /\ EntBytes(n) \in ValidEntLens
    /\ CountOfEnt(EntBytes(n)) = n

PackCorrect ==
  pc = "packed" =>
    /\ Len(words) = n                                             \* mnemonic_length
    /\ \A i \in 1..n : words[i] = [b \in 1..11 |-> 11 * (i - 1) + b - 1]
    \* every window stays inside the 64-byte buffer
    /\ \A i \in 0..(n - 1) : (11 * i) \div 8 + 8 <= 64

-----------------------------------------------------------------------------
\* constant-level facts, evaluated once
Sep == {<<32>>, <<32, 32>>, <<9>>, <<10>>, <<13, 10>>}
Pad == {<<>>} \cup Sep
Abc == <<<<97>>, <<98, 98>>, <<99>>>>
ASSUME \A s1, s2 \in Sep : \A p1, p2 \in Pad :
         Tokens(p1 \o Abc[1] \o s1 \o Abc[2] \o s2 \o Abc[3] \o p2, StdWs) = Abc
ASSUME Tokens(<<>>, StdWs) = <<>> /\ Tokens(<<32, 32>>, StdWs) = <<>>
\* the TLA+ UTF-8 encoder agrees with the JDK at every encoding-length boundary
ASSUME \A cp \in {0, 65, 127, 128, 2047, 2048, 55295, 57344, 65535, 65536, 1114111} :
         Utf8(<<cp>>) = StrToUtf8(CpsToStr(<<cp>>))
\* declarative round trip on concrete data: entropy -> indices -> entropy, all sizes
ASSUME \A len \in ValidEntLens :
         \A ent \in {Zeros(len), Rep(len, 255), [i \in 1..len |-> (i * 37) % 256]} :
           /\ EntropyOfIdx(IdxOfEntropy(ent)) = ent
           /\ AcceptsIdx(IdxOfEntropy(ent))
ASSUME PhraseOfEntropy(Zeros(16)) =
         "abandon abandon abandon abandon abandon abandon abandon abandon abandon abandon abandon about"
ASSUME Cardinality(DOMAIN WordIndex) = 2048 /\ \A i \in 1..2048 : WordIndex[Words[i]] = i - 1
=============================================================================
