SPECIFICATION Spec
CONSTANT NW = 1
INVARIANT EmitInv
CHECK_DEADLOCK FALSE
