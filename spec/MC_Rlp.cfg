SPECIFICATION Spec
INVARIANT RoundTrip
INVARIANT VariantsRejected
CHECK_DEADLOCK FALSE
