"""./check selftest [bind] [models] [fixes] [seeds] [ids...]

Self-test of the binding between specification and code (not a registered check):

  bind    for every property: take a recorded event of the last run whose class is exact, corrupt ONE observed
          field (flip a hex digit of a digest / signature / output, swap a word of a phrase, change a status) and
          expect the judge to report a deviation for it; also drop nothing silently: the uncorrupted event must
          still be accepted
  models  every defect variant of the model-level specs must FAIL (MC_Bip39 with the 12..24 table, MC_Eip712
          early_exit / primary_included, MC_Domain fresh_iterator / first_only) and every action of the stage /
          interleaving models must be covered (TLC -coverage): the invariants are not vacuous
  fixes   revert each `fix:` commit of /repo in the working tree, expect the owning check to exit 1, restore
  seeds   apply each /verif/seeded/*/patch.diff, expect the named check to exit 1, restore

/repo is modified only transiently (git apply / git checkout -- .) and must be clean before and after.
"""
import copy
import glob
import json
import os
import re
import shutil
import subprocess
import sys

V = os.path.dirname(os.path.abspath(__file__))


def _chk():
    import importlib.machinery
    import importlib.util
    loader = importlib.machinery.SourceFileLoader("check_driver", os.path.join(V, "check"))
    spec = importlib.util.spec_from_loader("check_driver", loader)
    m = importlib.util.module_from_spec(spec)
    loader.exec_module(m)
    return m


def repo_clean():
    return subprocess.run(["git", "-C", "/repo", "status", "--short"], capture_output=True, text=True).stdout.strip() == ""


def run_check(pid, env_extra=None):
    env = dict(os.environ)
    env.update(env_extra or {})
    p = subprocess.run([os.path.join(V, "check"), pid, "quick"], capture_output=True, text=True, env=env)
    return p.returncode, p.stdout


# ----------------------------------------------------------------------------- bind

HEX = re.compile(r"^[0-9a-f]{8,}$")


def corrupt(out):
    """Returns a copy of the observation with one field changed, or None."""
    o = copy.deepcopy(out)

    def walk(x):
        if isinstance(x, dict):
            for k in sorted(x):
                v = x[k]
                if k in ("stderr_head", "wall_ms", "stderr_len", "debug", "reqs", "err"):
                    continue
                if isinstance(v, str) and HEX.match(v):
                    pos = len(v) // 2
                    x[k] = v[:pos] + ("0" if v[pos] != "0" else "1") + v[pos + 1:]
                    return True
                if k in ("phrase", "display", "text") and isinstance(v, str) and len(v) > 3:
                    x[k] = v[:-1] + ("a" if v[-1] != "a" else "b")
                    return True
                if isinstance(v, (dict, list)) and walk(v):
                    return True
        elif isinstance(x, list):
            for v in x:
                if isinstance(v, (dict, list)) and walk(v):
                    return True
        return False

    if walk(o):
        return o
    if isinstance(o, dict) and "status" in o:
        o["status"] = 0 if o["status"] != 0 else 255
        return o
    if isinstance(o, dict) and "err" in o:
        return {"ok": {}}
    return None


def bind(ids):
    chk = _chk()
    chk.build_java()
    bad = 0
    for pid in ids:
        cfg = chk.CHECKS[pid]
        judge_module = cfg.get("judge", "Judge")
        found = False
        for g in cfg["gen"]:
            trace = os.path.join(chk.OUT, pid, g["module"] + ".trace")
            if not os.path.exists(trace):
                continue
            wd = os.path.join(chk.OUT, "selftest")
            os.makedirs(wd, exist_ok=True)
            with open(trace) as f:
                events = [json.loads(line) for line in f if line.strip()]
            # candidates: events without a session that the unmodified judge accepts
            cands = [e for e in events if "sid" not in e and "skip" not in e["out"]]
            # prefer events with a result to corrupt
            cands = ([e for e in cands if "ok" in e["out"] or e["out"].get("status") == 0][:300] + cands[:100])
            step = max(1, len(cands) // 12)
            for e in cands[::step]:
                c = corrupt(e["out"])
                if c is None:
                    continue
                one = os.path.join(wd, "bind.trace")
                with open(one, "w") as f:
                    f.write(json.dumps(e) + "\n")
                    f.write(json.dumps(dict(e, i=e["i"] + 100000000, out=c)) + "\n")
                try:
                    evs, cls, devs, _ = chk.judge(one, wd, "bind", 1, judge_module=judge_module)
                except chk.ToolError:
                    continue            # the corrupted record is not even well-formed for the judge
                orig = [d for d in devs if d["i"] == e["i"] and pid in d["props"]]
                corr = [d for d in devs if d["i"] != e["i"]]
                if orig:
                    continue            # not an accepted event (e.g. a known finding): try another
                if judge_module == "JudgeCrash":
                    # the crash judge only reads the outcome kind: turn the outcome into a crash
                    with open(one, "w") as f:
                        crash = {"panic": "selftest"} if "status" not in e["out"] else dict(e["out"], status=101)
                        f.write(json.dumps(dict(e, out=crash)) + "\n")
                    evs, cls, corr, _ = chk.judge(one, wd, "bind", 1, judge_module=judge_module)
                if corr:
                    print("bind %s: corrupted %s event %s rejected (%s)" % (pid, e["op"], e["i"], corr[0]["reason"]))
                    found = True
                    break
            if found:
                break
        if not found:
            print("bind %s: NO corrupted event was rejected" % pid)
            bad += 1
    return bad


# ----------------------------------------------------------------------------- models

MUST_FAIL = [("MC_Bip39", "MC_Bip39_Range.cfg"), ("MC_Eip712", "MC_Eip712_early_exit.cfg"),
             ("MC_Eip712", "MC_Eip712_primary_included.cfg"), ("MC_Domain", "MC_Domain_fresh_iterator.cfg"),
             ("MC_Domain", "MC_Domain_first_only.cfg"), ("MC_Args", "MC_Args_naive.cfg")]
# (MC_Wallet carries its own anti-vacuity ASSUMEs: TLC's coverage instrumentation runs out of memory on it)
COVERAGE = [("MC_Vanity", "MC_Vanity_N0.cfg"), ("MC_Vanity", "MC_Vanity_N2.cfg"), ("MC_Eip712", "MC_Eip712.cfg"),
            ("MC_Domain", "MC_Domain.cfg"), ("MC_Bip39", "MC_Bip39.cfg")]


def models():
    chk = _chk()
    chk.build_java()
    wd = os.path.join(chk.OUT, "selftest")
    os.makedirs(wd, exist_ok=True)
    bad = 0
    for module, cfg in MUST_FAIL:
        r = chk.tlc(module, cfg, wd, env_extra={"VERIF_TIER": "quick", "VERIF_SEED": "1"}, workers=8, tag="mustfail")
        failed = "is violated" in r["out"]
        print("models %s/%s: %s" % (module, cfg, "fails as it must" if failed else "DID NOT FAIL"))
        bad += 0 if failed else 1
    taken = {}
    for module, cfg in COVERAGE:
        r = chk.tlc(module, cfg, wd, env_extra={"VERIF_TIER": "quick", "VERIF_SEED": "1"}, workers=4, tag="coverage",
                    extra=["-coverage", "1"])
        # lines of the form  <Action line ... of module M>: distinct:total
        acts = re.findall(r"^<(\w+) line \d+, col \d+ to line \d+, col \d+ of module (\w+)>: (\d+):(\d+)", r["out"], re.M)
        last = {}
        for name, mod, dist, tot in acts:
            last[(mod, name)] = int(tot)
        for k, v in last.items():
            taken[k] = taken.get(k, 0) + v
        if not (r["ok"] and last):
            print("models %s/%s: coverage run failed" % (module, cfg))
            bad += 1
    never = [k for k, v in taken.items() if v == 0 and k[1] != "Init"]
    print("models coverage: %d actions over %d runs, never taken: %s" % (len(taken), len(COVERAGE), never or "none"))
    bad += 1 if never else 0
    return bad


# ----------------------------------------------------------------------------- fixes / seeds

FIX_OWNERS = {
    "fix: accept only the BIP-39": ["C01", "C12"],
    "fix: resolve all EIP-712": ["C08"],
    "fix: check intN": ["C09"],
    "fix: refuse negative JSON": ["C13", "C09"],
    "fix: reject HD path": ["C14"],
    "fix: parse signatures": ["C15"],
    "fix: refuse legacy": ["C11"],
    "fix: parse upper-case": ["C18"],
    "fix: parse JSON floats": ["C13"],
    "fix: only canonical decimal": ["C20"],
}


def with_patch(args, pids, label, env_extra=None):
    if not repo_clean():
        print("/repo is not clean")
        return 1
    bad = 0
    p = subprocess.run(["git", "-C", "/repo", "apply"] + args, capture_output=True, text=True)
    if p.returncode != 0:
        print("%s: patch does not apply: %s" % (label, p.stderr[:300]))
        return 1
    try:
        for pid in pids:
            rc, out = run_check(pid, env_extra)
            n = len([line for line in out.splitlines() if line.startswith("VIOLATION")])
            print("%s: %s exit %d (%d VIOLATION lines)%s" % (label, pid, rc, n, "" if rc == 1 else "   <-- NOT DETECTED"))
            bad += 0 if rc == 1 else 1
    finally:
        subprocess.run(["git", "-C", "/repo", "checkout", "--", "."], check=True)
    return bad


def fixes():
    bad = 0
    for pat, pids in FIX_OWNERS.items():
        h = subprocess.run(["git", "-C", "/repo", "log", "--format=%H", "--grep=^" + pat, "-1"], capture_output=True,
                           text=True).stdout.strip()
        diff = subprocess.run(["git", "-C", "/repo", "show", "--format=", h], capture_output=True, text=True).stdout
        path = os.path.join(V, "out", "selftest", "revert.diff")
        os.makedirs(os.path.dirname(path), exist_ok=True)
        open(path, "w").write(diff)
        bad += with_patch(["-R", path], pids, "revert %s (%s)" % (h[:7], pat))
    return bad


def seeds(only=None):
    bad = 0
    for d in sorted(glob.glob(os.path.join(V, "seeded", "*"))):
        name = os.path.basename(d)
        if only and name not in only:
            continue
        meta = json.load(open(os.path.join(d, "meta.json")))
        if meta["detection"].get("missed"):
            print("seed %s: recorded as NOT DETECTED (see DESIGN.md 13), not run" % name)
            continue
        pids = sorted(set(re.findall(r"\bC\d\d\b", meta["detection"]["detected_by"].split("MISSED")[0]))) or [meta["property"]]
        pids = [p for p in pids if p == meta["property"]] or pids[:1]
        bad += with_patch([os.path.join(d, "patch.diff")], pids, "seed " + name, meta["detection"].get("env"))
    return bad


def main(argv):
    chk = _chk()
    parts = [a for a in argv if a in ("bind", "models", "fixes", "seeds")] or ["bind", "models", "fixes", "seeds"]
    ids = [a for a in argv if re.match(r"^C\d\d$", a)] or sorted(chk.CHECKS)
    names = [a for a in argv if a not in parts and a not in ids]
    bad = 0
    if "bind" in parts:
        bad += bind(ids)
    if "models" in parts:
        bad += models()
    if "fixes" in parts:
        bad += fixes()
    if "seeds" in parts:
        bad += seeds(names or None)
    shutil.rmtree(os.path.join(V, "out", "selftest"), ignore_errors=True)
    print("selftest: %s" % ("ok" if bad == 0 else "%d problem(s)" % bad))
    return 0 if bad == 0 else 1
