//! In-process interposition of libc `getentropy`: this definition wins over
//! libc at link time, so `Mnemonic::random` consumes what the workload injects.
//! Control is thread-local; a thread that configured nothing gets real
//! entropy from /dev/urandom.

use serde_json::{json, Value};
use std::{cell::RefCell, fs::File, io::Read, os::raw::c_int};

#[derive(Default)]
pub struct Ctl {
    pub active: bool,
    /// bytes handed out, consumed front to back; when exhausted 0xEE filler is used
    pub feed: Option<Vec<u8>>,
    pub pos: usize,
    /// request numbers (0-based) that fail
    pub fail_at: Vec<usize>,
    /// errno reported by a failing request
    pub errno: c_int,
    pub calls: usize,
    pub log: Vec<Value>,
}

thread_local! {
    static CTL: RefCell<Ctl> = RefCell::new(Ctl::default());
}

pub fn configure(feed: Option<Vec<u8>>, fail_at: Vec<usize>, errno: c_int) {
    CTL.with(|c| {
        *c.borrow_mut() = Ctl { active: true, feed, pos: 0, fail_at, errno, calls: 0, log: Vec::new() };
    });
}

/// Returns and clears the request log of this thread if interposition was configured.
pub fn take_log() -> Option<Value> {
    CTL.with(|c| {
        let mut c = c.borrow_mut();
        if !c.active {
            return None;
        }
        let log = std::mem::take(&mut c.log);
        *c = Ctl::default();
        Some(Value::Array(log))
    })
}

extern "C" {
    fn __errno_location() -> *mut c_int;
}

/// # Safety
/// Same contract as libc `getentropy`.
#[no_mangle]
pub unsafe extern "C" fn getentropy(buffer: *mut u8, len: usize) -> c_int {
    let buf = std::slice::from_raw_parts_mut(buffer, len);
    CTL.with(|c| {
        let mut c = c.borrow_mut();
        let call = c.calls;
        c.calls += 1;
        if len > 256 || (c.active && c.fail_at.contains(&call)) {
            let errno = if c.active { c.errno } else { 5 }; // default EIO
            *__errno_location() = errno;
            if c.active {
                c.log.push(json!({"len": len, "rc": -1, "hex": "", "errno": errno}));
            }
            return -1;
        }
        let mut feed = c.feed.take();
        match feed.as_mut() {
            Some(f) => {
                for b in buf.iter_mut() {
                    *b = if c.pos < f.len() { f[c.pos] } else { 0xEE };
                    c.pos += 1;
                }
            }
            None => {
                File::open("/dev/urandom").and_then(|mut f| f.read_exact(buf)).expect("urandom");
            }
        }
        c.feed = feed;
        if c.active {
            c.log.push(json!({"len": len, "rc": 0, "hex": hex::encode(&*buf)}));
        }
        0
    })
}
