//! One function per workload operation.  Each returns the observation as
//! JSON; nothing here compares against an expectation.

use crate::{doc, entropy};
use ethdigest::Digest;
use hdwallet::{
    account::{PrivateKey, Signature},
    hdk,
    message::EthereumMessage,
    mnemonic::{Language, Mnemonic},
    transaction::Transaction,
    typeddata::TypedData,
};
use serde_json::{json, Map, Value};
use std::{
    collections::BTreeMap,
    env,
    ffi::OsString,
    fs,
    io::{Read, Write},
    os::unix::{
        ffi::{OsStrExt, OsStringExt},
        fs::OpenOptionsExt,
        process::ExitStatusExt,
    },
    path::PathBuf,
    process::{Command, Stdio},
    sync::{
        atomic::{AtomicBool, AtomicUsize, Ordering},
        Arc,
    },
    thread,
    time::{Duration, Instant},
};

type R = Result<Value, String>;

fn ok(v: Value) -> Value {
    json!({ "ok": v })
}
fn err(e: impl ToString) -> Value {
    json!({ "err": e.to_string() })
}

fn s<'a>(input: &'a Value, key: &str) -> Result<&'a str, String> {
    input.get(key).and_then(Value::as_str).ok_or_else(|| format!("missing string field {key}"))
}
fn b(input: &Value, key: &str) -> Result<Vec<u8>, String> {
    doc::bytes(input.get(key).ok_or_else(|| format!("missing bytes field {key}"))?)
}
fn hx(bytes: impl AsRef<[u8]>) -> String {
    hex::encode(bytes)
}

/// Replaces `{"ref": i, "what": w}` nodes by data from the output of the
/// session's earlier item `i`.  Returns the resolved input and whether any
/// reference was present.
pub fn resolve_refs(v: &Value, store: &BTreeMap<String, Value>) -> Result<(Value, bool), String> {
    match v {
        Value::Object(o) if o.contains_key("ref") && o.contains_key("what") => {
            let key = o["ref"].to_string();
            let prev = store.get(&key).ok_or_else(|| format!("unresolved ref {key}"))?;
            let what = o["what"].as_str().unwrap_or("");
            let stdout = prev
                .get("stdout")
                .and_then(Value::as_str)
                .ok_or_else(|| format!("ref {key} has no stdout"))?;
            let bytes = hex::decode(stdout).map_err(|e| e.to_string())?;
            let r = match what {
                // text without the trailing newline, as a shell $(…) substitution gives
                "stdout_trim" => {
                    let t = String::from_utf8(bytes).map_err(|_| format!("ref {key}: stdout not UTF-8"))?;
                    Value::String(t.trim_end_matches('\n').to_string())
                }
                "stdout_hex" => Value::String(hx(bytes)),
                other => return Err(format!("unknown ref kind {other}")),
            };
            Ok((r, true))
        }
        Value::Object(o) => {
            let mut out = Map::new();
            let mut any = false;
            for (k, x) in o {
                let (r, a) = resolve_refs(x, store)?;
                any |= a;
                out.insert(k.clone(), r);
            }
            Ok((Value::Object(out), any))
        }
        Value::Array(a) => {
            let mut out = Vec::new();
            let mut any = false;
            for x in a {
                let (r, a) = resolve_refs(x, store)?;
                any |= a;
                out.push(r);
            }
            Ok((Value::Array(out), any))
        }
        other => Ok((other.clone(), false)),
    }
}

pub fn run(op: &str, input: &Value) -> Value {
    let r: R = match op {
        "mnemonic.parse" => mnemonic_parse(input),
        "mnemonic.seed" => mnemonic_seed(input),
        "mnemonic.random" => mnemonic_random(input),
        "mnemonic.sweep" => mnemonic_sweep(input),
        "path.parse" => path_parse(input),
        "path.for_index" => path_for_index(input),
        "hdk.derive" => hdk_derive(input),
        "hdk.derive.seq" => hdk_derive_seq(input),
        "key.new" => key_new(input),
        "key.sign" => key_sign(input),
        "key.sign.bulk" => key_sign_bulk(input),
        "sig.parse" => sig_parse(input),
        "sig.v" => sig_v(input),
        "message" => message(input),
        "tx.sign" => tx_sign(input),
        "tx.encode" => tx_encode(input),
        "typeddata" => typeddata(input),
        "cli" | "cli.new" => cli(input),
        "seq" => seq(input),
        "rlp.len" | "rlp.bytes" | "rlp.uint" | "rlp.list" | "eip712.encode_type" | "eip712.member_kind"
        | "mnemonic.entropy" => hooks(op, input),
        other => Err(format!("unknown op {other}")),
    };
    match r {
        Ok(v) => v,
        // executor-side trouble (malformed workload): never a verdict
        Err(e) => json!({ "skip": e }),
    }
}

// ---------------------------------------------------------------- mnemonic

fn mnemonic_parse(input: &Value) -> R {
    let text = s(input, "text")?;
    Ok(match Mnemonic::from_phrase(text) {
        Ok(m) => {
            let shown = m.to_string();
            let reparsed = shown.parse::<Mnemonic>().map(|m2| m2.to_phrase()).ok();
            ok(json!({
                "phrase": m.to_phrase(),
                "display": shown,
                "len": m.mnemonic_length(),
                "reparsed": reparsed,
            }))
        }
        Err(e) => err(e),
    })
}

fn mnemonic_seed(input: &Value) -> R {
    let text = s(input, "text")?;
    let pass = s(input, "pass")?;
    Ok(match Mnemonic::from_phrase(text) {
        Ok(m) => ok(json!({ "seed": hx(*m.seed(pass)) })),
        Err(e) => err(e),
    })
}

/// Run-length directive: `count` phrases "abandon x 11 about" whose word at position `pos` (1-based) is replaced
/// by a pseudo-random lower-case token of 3..8 letters (splitmix64 from `seed`).  Reports which tokens made the
/// phrase parse.  (A compact description of a large regular workload, like the bytes-spec "rep".)
fn mnemonic_sweep(input: &Value) -> R {
    let count = input.get("count").and_then(Value::as_u64).ok_or("count")?;
    let seed = input.get("seed").and_then(Value::as_u64).ok_or("seed")?;
    let pos = input.get("pos").and_then(Value::as_u64).ok_or("pos")? as usize;
    // the starting state is a full 64-bit mix of the seed, so that the streams of different seeds do not overlap
    let mut state = {
        let mut z = seed.wrapping_add(0x1234_5678_9ABC_DEF1).wrapping_mul(0x9E37_79B9_7F4A_7C15);
        z = (z ^ (z >> 30)).wrapping_mul(0xBF58_476D_1CE4_E5B9);
        z = (z ^ (z >> 27)).wrapping_mul(0x94D0_49BB_1331_11EB);
        z ^ (z >> 31)
    };
    let mut next = move || {
        state = state.wrapping_add(0x9E37_79B9_7F4A_7C15);
        let mut z = state;
        z = (z ^ (z >> 30)).wrapping_mul(0xBF58_476D_1CE4_E5B9);
        z = (z ^ (z >> 27)).wrapping_mul(0x94D0_49BB_1331_11EB);
        z ^ (z >> 31)
    };
    let mut accepted = std::collections::BTreeSet::new();
    let mut words = vec!["abandon"; 12];
    words[11] = "about";
    for _ in 0..count {
        let mut r = next();
        let len = 3 + (r % 6) as usize;
        r /= 6;
        let mut token = String::with_capacity(len);
        for _ in 0..len {
            token.push((b'a' + (r % 26) as u8) as char);
            r /= 26;
        }
        let mut phrase = String::new();
        for (i, w) in words.iter().enumerate() {
            if i > 0 {
                phrase.push(' ');
            }
            phrase.push_str(if i + 1 == pos { &token } else { w });
        }
        // distinct tokens only (genuine list words recur many times in a long sweep)
        if accepted.len() < 2000 && Mnemonic::from_phrase(&phrase).is_ok() {
            accepted.insert(token);
        }
    }
    Ok(ok(json!({ "tried": count, "accepted": accepted.into_iter().collect::<Vec<_>>() })))
}

fn mnemonic_random(input: &Value) -> R {
    // a number, or a decimal string for lengths beyond what the workload's integers can hold
    let len = match input.get("len_text") {
        Some(Value::String(t)) => t.parse::<usize>().map_err(|_| "len_text does not fit usize")?,
        _ => input.get("len").and_then(Value::as_u64).ok_or("len")? as usize,
    };
    let feed = match input.get("feed") {
        Some(Value::Null) | None => None,
        Some(f) => Some(doc::bytes(f)?),
    };
    let fail_at = input
        .get("fail_at")
        .and_then(Value::as_array)
        .map(|a| a.iter().filter_map(Value::as_u64).map(|x| x as usize).collect())
        .unwrap_or_default();
    let errno = input.get("errno").and_then(Value::as_i64).unwrap_or(5) as std::os::raw::c_int;
    entropy::configure(feed, fail_at, errno);
    Ok(match Mnemonic::random(Language::English, len) {
        Ok(m) => {
            let phrase = m.to_phrase();
            let reparse = Mnemonic::from_phrase(&phrase).map(|m2| m2.to_phrase()).ok();
            ok(json!({ "phrase": phrase, "len": m.mnemonic_length(), "reparsed": reparse }))
        }
        Err(e) => err(e),
    })
}

// ---------------------------------------------------------------- paths and derivation

fn path_parse(input: &Value) -> R {
    let text = s(input, "text")?;
    Ok(match text.parse::<hdk::Path>() {
        Ok(p) => {
            let comps = p
                .components()
                .map(|c| match c {
                    hdk::Component::Hardened(v) => json!([true, v.to_string()]),
                    hdk::Component::Normal(v) => json!([false, v.to_string()]),
                })
                .collect::<Vec<_>>();
            ok(json!({ "display": p.to_string(), "comps": comps }))
        }
        Err(e) => err(e),
    })
}

fn path_for_index(input: &Value) -> R {
    let index = s(input, "index")?.parse::<usize>().map_err(|e| format!("index not a usize: {e}"))?;
    Ok(match hdk::Path::for_index(index).into_path_result() {
        Ok(p) => ok(json!({ "display": p.to_string() })),
        Err(e) => err(e),
    })
}

/// `Path::for_index` is observed whether it is infallible or returns a `Result`.
trait IntoPathResult {
    fn into_path_result(self) -> Result<hdk::Path, String>;
}
impl IntoPathResult for hdk::Path {
    fn into_path_result(self) -> Result<hdk::Path, String> {
        Ok(self)
    }
}
impl<E: ToString> IntoPathResult for Result<hdk::Path, E> {
    fn into_path_result(self) -> Result<hdk::Path, String> {
        self.map_err(|e| e.to_string())
    }
}

fn hdk_derive(input: &Value) -> R {
    let seed = b(input, "seed")?;
    let text = s(input, "path")?;
    let path = match text.parse::<hdk::Path>() {
        Ok(p) => p,
        Err(e) => return Ok(json!({ "err": e.to_string(), "stage": "path" })),
    };
    Ok(match hdk::derive(&seed, &path) {
        Ok(k) => ok(json!({
            "secret": hx(k.secret()),
            "addr": hx(&*k.address()),
            "path": path.to_string(),
        })),
        Err(e) => json!({ "err": e.to_string(), "stage": "derive" }),
    })
}

/// A HISTORY of library calls on one thread of one process: `steps` = [{op, in}], answered in order.
fn seq(input: &Value) -> R {
    let steps = input.get("steps").and_then(Value::as_array).ok_or("steps")?;
    let mut outs = Vec::new();
    for st in steps {
        let op = st.get("op").and_then(Value::as_str).ok_or("step op")?;
        if op.starts_with("cli") || op == "seq" {
            return Err("a history consists of library calls".to_string());
        }
        outs.push(run(op, st.get("in").unwrap_or(&Value::Null)));
    }
    Ok(ok(json!({ "steps": outs })))
}

/// A HISTORY of derivations on one thread of one process: `steps` = [{seed, path}], answered in order.
fn hdk_derive_seq(input: &Value) -> R {
    let steps = input.get("steps").and_then(Value::as_array).ok_or("steps")?;
    let mut outs = Vec::new();
    for st in steps {
        outs.push(hdk_derive(st)?);
    }
    Ok(ok(json!({ "steps": outs })))
}

// ---------------------------------------------------------------- keys and signatures

fn key_new(input: &Value) -> R {
    let secret = b(input, "secret")?;
    Ok(match PrivateKey::new(&secret) {
        Ok(k) => ok(json!({
            "secret": hx(k.secret()),
            "pub": hx(k.public().encode_uncompressed()),
            "addr": hx(&*k.address()),
            "addr_display": k.address().to_string(),
            "debug": format!("{k:?}"),
        })),
        Err(e) => err(e),
    })
}

fn sig_json(sig: &Signature) -> Value {
    json!({
        "r": hx(sig.r().to_be_bytes()),
        "s": hx(sig.s().to_be_bytes()),
        "par": sig.y_parity().as_u32(),
        "display": sig.to_string(),
    })
}

fn key_sign(input: &Value) -> R {
    let secret = b(input, "secret")?;
    let digest = b(input, "digest")?;
    let digest: [u8; 32] = digest.try_into().map_err(|_| "digest must be 32 bytes")?;
    let key = match PrivateKey::new(&secret) {
        Ok(k) => k,
        Err(e) => return Ok(json!({ "err": e.to_string(), "stage": "key" })),
    };
    let sig = key.sign(Digest(digest));
    let again = key.try_sign(Digest(digest)).map(|s2| s2 == sig).unwrap_or(false);
    let mut o = sig_json(&sig);
    o["again"] = json!(again);
    o["addr"] = json!(hx(&*key.address()));
    Ok(ok(o))
}

/// Bulk sweep: signs `count` digests SHA-256(seed || i as 8 big-endian bytes), i = from.., and reports one SHA-256
/// per chunk over the concatenated r || s || yParity of the chunk's signatures (the judge compares each chunk hash
/// with the specification's).  No comparison happens here.
fn key_sign_bulk(input: &Value) -> R {
    use sha2::{Digest as _, Sha256};
    let secret = b(input, "secret")?;
    let seed = b(input, "seed")?;
    let from = input.get("from").and_then(Value::as_u64).ok_or("from")?;
    let count = input.get("count").and_then(Value::as_u64).ok_or("count")?;
    let chunk = input.get("chunk").and_then(Value::as_u64).ok_or("chunk")?.max(1);
    let key = match PrivateKey::new(&secret) {
        Ok(k) => k,
        Err(e) => return Ok(json!({ "err": e.to_string(), "stage": "key" })),
    };
    let mut chunks = Vec::new();
    let mut acc = Sha256::new();
    for n in 0..count {
        let mut h = Sha256::new();
        h.update(&seed);
        h.update((from + n).to_be_bytes());
        let digest: [u8; 32] = h.finalize().into();
        match key.try_sign(Digest(digest)) {
            Ok(sig) => {
                acc.update(sig.r().to_be_bytes());
                acc.update(sig.s().to_be_bytes());
                acc.update([sig.y_parity().as_u32() as u8]);
            }
            Err(e) => return Ok(json!({ "err": e.to_string(), "stage": "sign", "at": from + n })),
        }
        if (n + 1) % chunk == 0 || n + 1 == count {
            chunks.push(json!(hx(std::mem::replace(&mut acc, Sha256::new()).finalize())));
        }
    }
    Ok(ok(json!({ "chunks": chunks })))
}

fn sig_parse(input: &Value) -> R {
    let text = s(input, "text")?;
    Ok(match text.parse::<Signature>() {
        Ok(sig) => ok(sig_json(&sig)),
        Err(e) => err(e),
    })
}

fn sig_v(input: &Value) -> R {
    let r = ethnum::U256::from_be_bytes(b(input, "r")?.try_into().map_err(|_| "r must be 32 bytes")?);
    let sv = ethnum::U256::from_be_bytes(b(input, "s")?.try_into().map_err(|_| "s must be 32 bytes")?);
    let par = input.get("par").and_then(Value::as_u64).ok_or("par")? as u8;
    let chain = match input.get("chain") {
        Some(Value::Null) | None => None,
        Some(c) => Some(ethnum::U256::from_be_bytes(
            doc::bytes(c)?.try_into().map_err(|_| "chain must be 32 bytes")?,
        )),
    };
    let sig = Signature::from_parts(r, sv, par);
    Ok(ok(json!({ "v": hx(sig.v(chain).to_be_bytes()) })))
}

// ---------------------------------------------------------------- digests

fn message(input: &Value) -> R {
    let data = if input.get("big").is_some() { b(input, "big")? } else { b(input, "data")? };
    Ok(ok(json!({ "digest": hx(EthereumMessage(&data).signing_message().0) })))
}

fn tx_sign(input: &Value) -> R {
    let mut text = Vec::new();
    doc::render(input.get("doc").ok_or("doc")?, &mut text)?;
    let tx = match serde_json::from_slice::<Transaction>(&text) {
        Ok(tx) => tx,
        Err(e) => return Ok(err(e)),
    };
    let kind = match &tx {
        Transaction::Legacy(_) => "legacy",
        Transaction::Eip2930(_) => "2930",
        Transaction::Eip1559(_) => "1559",
    };
    let digest = tx.signing_message();
    let mut o = json!({ "kind": kind, "digest": hx(digest.0) });
    if let Some(secret) = input.get("key").filter(|k| !k.is_null()) {
        let key = PrivateKey::new(doc::bytes(secret)?).map_err(|e| format!("workload key invalid: {e}"))?;
        let sig = key.sign(digest);
        o["sig"] = sig_json(&sig);
        o["signed"] = json!(hx(tx.encode(sig)));
    }
    Ok(ok(o))
}

/// `Transaction::encode` with a signature given as text (any scalars the parser accepts).
fn tx_encode(input: &Value) -> R {
    let mut text = Vec::new();
    doc::render(input.get("doc").ok_or("doc")?, &mut text)?;
    let tx = match serde_json::from_slice::<Transaction>(&text) {
        Ok(tx) => tx,
        Err(e) => return Ok(json!({ "err": e.to_string(), "stage": "transaction" })),
    };
    let sig = match s(input, "sigtext")?.parse::<Signature>() {
        Ok(sig) => sig,
        Err(e) => return Ok(json!({ "err": e.to_string(), "stage": "signature" })),
    };
    Ok(ok(json!({ "signed": hx(tx.encode(sig)), "sig": sig_json(&sig) })))
}

fn typeddata(input: &Value) -> R {
    let mut text = Vec::new();
    doc::render(input.get("doc").ok_or("doc")?, &mut text)?;
    Ok(match serde_json::from_slice::<TypedData>(&text) {
        Ok(td) => ok(json!({
            "domsep": hx(td.domain_separator().0),
            "msghash": hx(td.message_hash().0),
            "digest": hx(td.signing_message().0),
        })),
        Err(e) => err(e),
    })
}

// ---------------------------------------------------------------- hooks (cargo feature)

#[cfg(feature = "hooks")]
fn hooks(op: &str, input: &Value) -> R {
    use hdwallet::{transaction::verif_hooks as rlp, typeddata::verif_hooks as td};
    Ok(match op {
        "rlp.len" => {
            let len = s(input, "len")?.parse::<usize>().map_err(|e| e.to_string())?;
            let off = input.get("off").and_then(Value::as_u64).ok_or("off")? as u8;
            ok(json!({ "hex": hx(rlp::rlp_len(len, off)) }))
        }
        "rlp.bytes" => ok(json!({ "hex": hx(rlp::rlp_bytes(&b(input, "data")?)) })),
        "rlp.uint" => {
            let v: [u8; 32] = b(input, "value")?.try_into().map_err(|_| "value must be 32 bytes")?;
            ok(json!({ "hex": hx(rlp::rlp_uint(ethnum::U256::from_be_bytes(v))) }))
        }
        "rlp.list" => {
            let items = input
                .get("items")
                .and_then(Value::as_array)
                .ok_or("items")?
                .iter()
                .map(doc::bytes)
                .collect::<Result<Vec<_>, _>>()?;
            let refs = items.iter().map(Vec::as_slice).collect::<Vec<_>>();
            ok(json!({ "hex": hx(rlp::rlp_list(&refs)) }))
        }
        "eip712.encode_type" => {
            let mut text = Vec::new();
            doc::render(input.get("types").ok_or("types")?, &mut text)?;
            let text = String::from_utf8(text).map_err(|e| e.to_string())?;
            match td::encode_type(&text, s(input, "kind")?) {
                Ok(t) => ok(json!({ "text": t })),
                Err(e) => err(e),
            }
        }
        "eip712.member_kind" => {
            let (debug, display) = td::member_kind(s(input, "text")?);
            ok(json!({ "debug": debug, "display": display }))
        }
        "mnemonic.entropy" => match Mnemonic::from_phrase(s(input, "text")?) {
            Ok(m) => ok(json!({ "entropy": hx(m.verif_entropy()) })),
            Err(e) => err(e),
        },
        _ => unreachable!(),
    })
}

#[cfg(not(feature = "hooks"))]
fn hooks(_op: &str, _input: &Value) -> R {
    Ok(json!({ "skip": "no-hooks" }))
}

// ---------------------------------------------------------------- the real binary

static CLI_SEQ: AtomicUsize = AtomicUsize::new(0);

extern "C" {
    fn mkfifo(path: *const std::os::raw::c_char, mode: u32) -> i32;
}

fn cli(input: &Value) -> R {
    let bin = env::var("HDW_BIN").map_err(|_| "HDW_BIN not set")?;
    let tmp = PathBuf::from(env::var("HDW_TMP").map_err(|_| "HDW_TMP not set")?);
    let dir = tmp.join(format!("cli-{}-{}", std::process::id(), CLI_SEQ.fetch_add(1, Ordering::SeqCst)));
    fs::create_dir_all(&dir).map_err(|e| e.to_string())?;
    let r = cli_in(input, &bin, &dir);
    let _ = fs::remove_dir_all(&dir);
    r
}

fn cli_in(input: &Value, bin: &str, dir: &PathBuf) -> R {
    // input files
    let mut paths = BTreeMap::new();
    if let Some(files) = input.get("files").and_then(Value::as_object) {
        for (name, spec) in files {
            let path = dir.join(name);
            fs::write(&path, doc::bytes(spec)?).map_err(|e| e.to_string())?;
            paths.insert(name.clone(), path);
        }
    }
    // "fifos": inputs delivered through a named pipe (a path that is not a regular file); "@F:name" names them too
    let mut fifo_data = Vec::new();
    if let Some(fifos) = input.get("fifos").and_then(Value::as_object) {
        for (name, spec) in fifos {
            let path = dir.join(name);
            let c = std::ffi::CString::new(path.as_os_str().as_bytes()).map_err(|e| e.to_string())?;
            if unsafe { mkfifo(c.as_ptr(), 0o600) } != 0 {
                return Err(format!("mkfifo {}", path.display()));
            }
            fifo_data.push((path.clone(), doc::bytes(spec)?));
            paths.insert(name.clone(), path);
        }
    }
    let mut cmd = Command::new(bin);
    cmd.env_clear().current_dir(dir);
    for a in input.get("argv").and_then(Value::as_array).ok_or("argv")? {
        let arg: OsString = match a {
            Value::String(text) => match text.strip_prefix("@F:") {
                Some(name) => paths.get(name).ok_or_else(|| format!("no file {name}"))?.clone().into(),
                None => text.clone().into(),
            },
            other => OsString::from_vec(doc::bytes(other)?),
        };
        cmd.arg(arg);
    }
    if let Some(envs) = input.get("env").and_then(Value::as_object) {
        for (k, v) in envs {
            cmd.env(k, v.as_str().ok_or("env values must be strings")?);
        }
    }
    let log_path = dir.join("entropy.log");
    if let Some(shim) = input.get("shim").filter(|x| !x.is_null()) {
        cmd.env("LD_PRELOAD", env::var("HDW_SHIM").map_err(|_| "HDW_SHIM not set")?);
        cmd.env("HDW_SHIM_LOG", &log_path);
        if let Some(k) = shim.get("fail_at").and_then(Value::as_array) {
            let list = k.iter().filter_map(Value::as_u64).map(|x| x.to_string()).collect::<Vec<_>>().join(",");
            cmd.env("HDW_SHIM_FAIL_AT", list);
        }
        if let Some(k) = shim.get("fail_from").and_then(Value::as_u64) {
            cmd.env("HDW_SHIM_FAIL_FROM", k.to_string());
        }
        if let Some(k) = shim.get("errno").and_then(Value::as_u64) {
            cmd.env("HDW_SHIM_ERRNO", k.to_string());
        }
        if let Some(k) = shim.get("slow_after_fail_ms").and_then(Value::as_u64) {
            cmd.env("HDW_SHIM_SLOW_AFTER_FAIL", k.to_string());
        }
        // scheduled mode: the order and content of the environment's answers (a behaviour of the TLA+ model)
        if let Some(steps) = shim.get("schedule").and_then(Value::as_array) {
            let mut text = String::new();
            for st in steps {
                text.push_str(&format!(
                    "{} {} {}\n",
                    st.get("ord").and_then(Value::as_u64).ok_or("schedule ord")?,
                    st.get("rc").and_then(Value::as_i64).ok_or("schedule rc")?,
                    st.get("hex").and_then(Value::as_str).unwrap_or("")
                ));
            }
            let path = dir.join("schedule.txt");
            fs::write(&path, text).map_err(|e| e.to_string())?;
            cmd.env("HDW_SHIM_SCHEDULE", &path);
            cmd.env("HDW_SHIM_PATIENCE", shim.get("patience_ms").and_then(Value::as_u64).unwrap_or(5000).to_string());
        }
    }
    let stdin = match input.get("stdin") {
        Some(Value::Null) | None => None,
        Some(spec) => Some(doc::bytes(spec)?),
    };
    cmd.stdin(if stdin.is_some() { Stdio::piped() } else { Stdio::null() });
    cmd.stdout(Stdio::piped()).stderr(Stdio::piped());
    let timeout = Duration::from_millis(input.get("timeout_ms").and_then(Value::as_u64).unwrap_or(60_000));

    let start = Instant::now();
    let mut child = cmd.spawn().map_err(|e| format!("spawn {bin}: {e}"))?;
    // "stdin_chunks": sizes of the pieces in which standard input is delivered (with a pause after each, so that
    // the reader sees short reads); the rest follows in one piece.  The bytes are the same.
    let chunks = input
        .get("stdin_chunks")
        .and_then(Value::as_array)
        .map(|a| a.iter().filter_map(Value::as_u64).map(|x| x as usize).collect::<Vec<_>>())
        .unwrap_or_default();
    let writer = stdin.map(|data| {
        let mut pipe = child.stdin.take().unwrap();
        thread::spawn(move || {
            let mut pos = 0;
            for n in chunks {
                let end = (pos + n).min(data.len());
                if pipe.write_all(&data[pos..end]).and_then(|_| pipe.flush()).is_err() {
                    return;
                }
                pos = end;
                thread::sleep(Duration::from_millis(60));
            }
            let _ = pipe.write_all(&data[pos..]);
        })
    });
    // one writer per named pipe: opens it once the child has it open for reading, gives up when the child is gone
    let child_done = Arc::new(AtomicBool::new(false));
    let fifo_writers = fifo_data
        .into_iter()
        .map(|(path, data)| {
            let done = child_done.clone();
            thread::spawn(move || {
                let mut pipe = loop {
                    // O_NONBLOCK: opening for writing fails with ENXIO while nobody reads
                    match fs::OpenOptions::new().write(true).custom_flags(0o4000).open(&path) {
                        Ok(f) => break f,
                        Err(_) if done.load(Ordering::SeqCst) => return,
                        Err(_) => thread::sleep(Duration::from_millis(1)),
                    }
                };
                let mut pos = 0;
                while pos < data.len() && !done.load(Ordering::SeqCst) {
                    match pipe.write(&data[pos..]) {
                        Ok(n) => pos += n,
                        Err(e) if e.kind() == std::io::ErrorKind::WouldBlock => thread::sleep(Duration::from_millis(1)),
                        Err(_) => return,
                    }
                }
            })
        })
        .collect::<Vec<_>>();
    let mut so = child.stdout.take().unwrap();
    let mut se = child.stderr.take().unwrap();
    let out_t = thread::spawn(move || {
        let mut buf = Vec::new();
        let _ = so.read_to_end(&mut buf);
        buf
    });
    let err_t = thread::spawn(move || {
        let mut buf = Vec::new();
        let _ = se.read_to_end(&mut buf);
        buf
    });
    let mut timed_out = false;
    let status = loop {
        match child.try_wait().map_err(|e| e.to_string())? {
            Some(st) => break st,
            None => {
                if start.elapsed() > timeout {
                    timed_out = true;
                    let _ = child.kill();
                    break child.wait().map_err(|e| e.to_string())?;
                }
                thread::sleep(Duration::from_millis(1));
            }
        }
    };
    let wall_ms = start.elapsed().as_millis() as u64;
    child_done.store(true, Ordering::SeqCst);
    for w in fifo_writers {
        let _ = w.join();
    }
    if let Some(w) = writer {
        let _ = w.join();
    }
    let stdout = out_t.join().unwrap_or_default();
    let stderr = err_t.join().unwrap_or_default();

    let mut o = json!({
        "status": status.code().unwrap_or(-1),
        "signal": status.signal().unwrap_or(0),
        "stdout": hx(&stdout),
        "stderr_len": stderr.len(),
        "stderr_head": String::from_utf8_lossy(&stderr[..stderr.len().min(240)]),
        "wall_ms": wall_ms,
    });
    o["timeout"] = json!(timed_out);
    if input.get("shim").filter(|x| !x.is_null()).is_some() {
        let mut reqs = Vec::new();
        let mut diverged = Vec::new();
        if let Ok(text) = fs::read_to_string(&log_path) {
            for line in text.lines() {
                let f = line.split(' ').collect::<Vec<_>>();
                if f[0] == "D" || f[0] == "O" {
                    // scheduled mode.  D: the step at position `pos` (for thread ordinal `ord`) was never asked for;
                    // O: thread ordinal `ord` was still asking long after the last scheduled answer
                    diverged.push(json!({
                        "kind": f[0],
                        "tid": f.get(1).and_then(|x| x.parse::<u64>().ok()).unwrap_or(0),
                        "pos": f.get(2).and_then(|x| x.parse::<u64>().ok()).unwrap_or(0),
                        "ord": f.get(3).and_then(|x| x.parse::<u64>().ok()).unwrap_or(0),
                    }));
                } else if f.len() >= 4 {
                    reqs.push(json!({
                        "seq": f[0].parse::<u64>().unwrap_or(0),
                        "tid": f[1].parse::<u64>().unwrap_or(0),
                        "len": f[2].parse::<u64>().unwrap_or(0),
                        "rc": f[3].parse::<i64>().unwrap_or(0),
                        "hex": f.get(4).copied().unwrap_or(""),
                    }));
                }
            }
        }
        o["reqs"] = Value::Array(reqs);
        if input["shim"].get("schedule").is_some() {
            o["diverged"] = Value::Array(diverged);
        }
    }
    Ok(o)
}
