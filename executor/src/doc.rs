//! Rendering of tagged JSON-document ASTs to the exact text fed to the
//! implementation, and of "bytes specs" to byte strings.
//!
//! AST nodes: {"k":"obj","v":[[key,node]…]} {"k":"arr","v":[node…]}
//! {"k":"str","v":text} {"k":"num","v":literal} {"k":"bool","v":b} {"k":"null"}
//! {"k":"hexstr","v":bytes-spec} (a "0x…" string) {"k":"raw","v":bytes-spec}.
//!
//! Bytes spec: "hex" | {"rep":n,"pat":spec} | {"cat":[spec…]} | {"utf8":text}
//! | {"doc":node} (the rendered document) | {"hex":"hex"}.

use serde_json::Value;

pub fn render(node: &Value, out: &mut Vec<u8>) -> Result<(), String> {
    let kind = node.get("k").and_then(Value::as_str).ok_or("AST node without k")?;
    let v = node.get("v");
    match kind {
        "obj" => {
            out.push(b'{');
            for (n, pair) in v.and_then(Value::as_array).ok_or("obj without v")?.iter().enumerate() {
                if n > 0 {
                    out.push(b',');
                }
                let key = pair.get(0).and_then(Value::as_str).ok_or("obj key")?;
                out.extend_from_slice(serde_json::to_string(key).unwrap().as_bytes());
                out.push(b':');
                render(pair.get(1).ok_or("obj value")?, out)?;
            }
            out.push(b'}');
        }
        "arr" => {
            out.push(b'[');
            for (n, e) in v.and_then(Value::as_array).ok_or("arr without v")?.iter().enumerate() {
                if n > 0 {
                    out.push(b',');
                }
                render(e, out)?;
            }
            out.push(b']');
        }
        "str" => {
            let s = v.and_then(Value::as_str).ok_or("str without v")?;
            out.extend_from_slice(serde_json::to_string(s).unwrap().as_bytes());
        }
        "num" => out.extend_from_slice(v.and_then(Value::as_str).ok_or("num literal must be text")?.as_bytes()),
        "bool" => out.extend_from_slice(if v.and_then(Value::as_bool).ok_or("bool")? { b"true" } else { b"false" }),
        "null" => out.extend_from_slice(b"null"),
        "hexstr" => {
            let b = bytes(v.ok_or("hexstr without v")?)?;
            out.extend_from_slice(b"\"0x");
            out.extend_from_slice(hex::encode(b).as_bytes());
            out.push(b'"');
        }
        "raw" => out.extend_from_slice(&bytes(v.ok_or("raw without v")?)?),
        other => return Err(format!("unknown AST kind {other}")),
    }
    Ok(())
}

pub fn bytes(spec: &Value) -> Result<Vec<u8>, String> {
    match spec {
        Value::String(s) => hex::decode(s.strip_prefix("0x").unwrap_or(s)).map_err(|e| format!("bad hex in bytes spec: {e}")),
        Value::Object(o) => {
            if let Some(n) = o.get("rep") {
                let n = n.as_u64().ok_or("rep count")? as usize;
                let pat = bytes(o.get("pat").ok_or("rep without pat")?)?;
                let mut out = Vec::with_capacity(n * pat.len());
                for _ in 0..n {
                    out.extend_from_slice(&pat);
                }
                Ok(out)
            } else if let Some(parts) = o.get("cat") {
                let mut out = Vec::new();
                for p in parts.as_array().ok_or("cat list")? {
                    out.extend(bytes(p)?);
                }
                Ok(out)
            } else if let Some(h) = o.get("hex") {
                bytes(h)
            } else if let Some(t) = o.get("utf8") {
                Ok(t.as_str().ok_or("utf8 text")?.as_bytes().to_vec())
            } else if let Some(d) = o.get("doc") {
                let mut out = Vec::new();
                render(d, &mut out)?;
                Ok(out)
            } else {
                Err("unknown bytes spec".to_string())
            }
        }
        _ => Err("bytes spec must be a string or object".to_string()),
    }
}
