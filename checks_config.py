"""Per-property plumbing tables for ./check (no property logic: which TLC
modules to run as model check / generator, how many shards, evidence text)."""

TX_ASSUME = ["sampled over 256-bit field values (exhaustive over structure, boundaries enumerated by the spec)"]

CHECKS = {
    "C06": dict(
        level="model_checking",
        mc=[],
        gen=[dict(module="Gen_C06", slices=dict(quick=4, thorough=16))],
        rule="TLC enumerates Gen_C06 (presence lattice of dispatch keys x recipient mode, boundary values in every "
             "numeric slot of every kind, calldata lengths, access-list shapes, chain ids x nonces, PRNG documents); "
             "non-trivial = distinct documents for which the specification yields exactly one allowed outcome "
             "(byte-exact signed payload / digest / signature, or must-reject)",
        assumptions=TX_ASSUME,
    ),
    "C07": dict(
        level="model_checking",
        mc=[dict(module="MC_Rlp", workers=16)],
        gen=[dict(module="Gen_C07", slices=dict(quick=8, thorough=16))],
        rule="MC_Rlp: exhaustive round trip / non-canonical-variant rejection / header inverse over the bounded "
             "universe; Gen_C07: calldata of every length 0..Lmax and every byte value, every integer width 1..32 "
             "(min, max), access-list payload sizes across 55/56, 255/256, 65535/65536, calldata around 2^16 (2^24 "
             "thorough), hook sweeps of rlp::{len,bytes,uint,list}; non-trivial = distinct inputs with a byte-exact "
             "expectation",
        assumptions=TX_ASSUME,
    ),
    "C01": dict(
        level="model_checking",
        mc=[dict(module="MC_Bip39", workers=8)],
        gen=[dict(module="Gen_C01", slices=dict(quick=8, thorough=16))],
        rule="MC_Bip39: the unpack/pack loops on symbolic bit tokens for every word count 0..40 (universal over "
             "entropy data); Gen_C01: every word count 0..40 x 4 entropy patterns (adversarial truncated-checksum "
             "phrases for non-standard counts), every checksum bit flipped, unknown/case-variant tokens at 4 positions, "
             "every word index at every position of a 24-word phrase (stride 16 quick / 1 thorough), all 2048 "
             "candidates for the final word, whitespace layouts, 960 one-hot entropies through generation; "
             "non-trivial = distinct phrases of list words with a singleton allowed outcome",
        assumptions=["SHA-256 is a trusted primitive", "the spec's word list is the pinned canonical BIP-39 list"],
    ),
    "C02": dict(
        level="model_checking",
        mc=[dict(module="MC_Bip39", workers=8)],
        gen=[dict(module="Gen_C02", slices=dict(quick=4, thorough=16))],
        rule="Gen_C02: valid phrases of the five lengths x {canonical, irregular whitespace layout} x 28 passphrases "
             "of the normalisation classes (NFKD-equivalent spellings side by side) plus PRNG mixes; every seed is "
             "compared with PBKDF2(UTF8(canonical phrase), UTF8(NFKD(mnemonic+pass)), 2048, 64) from Bip39.tla",
        assumptions=["PBKDF2-HMAC-SHA512 and NFKD are trusted Java primitives (JDK 17 = Unicode 13; passphrase "
                     "alphabet restricted to characters assigned before Unicode 6)"],
    ),
    "C12": dict(
        level="model_checking",
        mc=[dict(module="MC_Bip39", workers=8)],
        gen=[dict(module="Gen_C12", slices=dict(quick=4, thorough=8))],
        rule="Gen_C12: generation through the interposed getentropy: 960 one-hot feeds (every entropy bit of every "
             "size), pattern/PRNG feeds, every requested length 0..40 with a working and a refusing source (refusal "
             "at request 0 and at 0..3), real OS entropy with logged grants",
        assumptions=["in-process link-time interposition of getentropy observes exactly what rand::get_entropy receives"],
    ),
}

# Text for MANIFEST.json (tools/mkmanifest.py)
_TRUST = ("Trusted: TLC 1.8.0, the Java primitives behind spec/Prim.tla (validated on standard vectors at setup), the "
          "executor's faithful rendering/recording. 256-bit data is sampled (boundaries enumerated), structure is "
          "enumerated exhaustively within the stated bounds.")
MANIFEST_TEXT = {
    "C06": dict(
        text="Every generated transaction document is executed by the real library and its kind, signing digest, "
             "signature and signed bytes are validated by TLC against the TLA+ layouts (Tx.tla/Rlp.tla); a strict "
             "RLP decoder written in TLA+ must recover every field and the recovered signer must be the key's address.",
        design_ref="6 (C06)", note=_TRUST,
        technique="TLA+ spec + TLC trace validation of generated workloads (spec-to-impl replay)"),
    "C01": dict(
        text="TLC checks on the specification that the accumulator loop and the 64-bit window read implement the "
             "declarative 8-bit/11-bit regrouping for all word counts and, run on symbolic bit tokens, for all "
             "entropy values; every generated phrase (valid, damaged, adversarial for wrong length tables, all words "
             "x positions, all final-word candidates) is parsed by the real library and the outcome validated by "
             "TLC against Bip39.tla's acceptance predicate, canonical print and length.",
        design_ref="6 (C01)", note=_TRUST,
        technique="TLC model check on symbolic bits + TLC trace validation of spec-generated phrases"),
    "C02": dict(
        text="Every seed returned by the real library for spec-generated (phrase layout, passphrase) pairs is validated "
             "by TLC against the TLA+ definition over the PBKDF2/NFKD primitives, which makes layout independence and "
             "NFKD equivalence consequences of the definition.",
        design_ref="6 (C02)", note=_TRUST + " TLA+ is an executable functional reference here.",
        technique="TLA+ functional spec + TLC trace validation"),
    "C12": dict(
        text="Generation is run against an interposed entropy source whose grants/refusals are logged; TLC validates "
             "each recorded generation against the spec: printed phrase = PhraseOf(granted bytes), entropy is a slice "
             "of one grant, a refusal forces an error, unsupported lengths are refused, the phrase parses back.",
        design_ref="6 (C12)", note=_TRUST,
        technique="TLA+ environment model + TLC trace validation with fault injection at every request"),
    "C07": dict(
        text="TLC proves on the specification (MC_Rlp, exhaustive over a bounded structurally complete universe) that "
             "the strict decoder inverts the encoder and rejects every non-canonical variant; the implementation is "
             "bound to that encoder by trace validation: signed transactions sweeping every calldata length / byte "
             "value / integer width / list size boundary must equal the spec encoding byte for byte and decode "
             "strictly to the original values; the private rlp functions are swept directly through the hooks.",
        design_ref="6 (C07)", note=_TRUST,
        technique="TLC exhaustive model check of the RLP spec + TLC trace validation binding the implementation"),
}
