"""Per-property plumbing tables for ./check (no property logic: which TLC
modules to run as model check / generator, how many shards, evidence text)."""

TX_ASSUME = ["sampled over 256-bit field values (exhaustive over structure, boundaries enumerated by the spec)"]

CHECKS = {
    "C06": dict(
        level="model_checking",
        mc=[],
        gen=[dict(module="Gen_C06", slices=dict(quick=4, thorough=16))],
        rule="TLC enumerates Gen_C06 (presence lattice of dispatch keys x recipient mode, boundary values in every "
             "numeric slot of every kind, calldata lengths, access-list shapes, chain ids x nonces, PRNG documents); "
             "non-trivial = distinct documents for which the specification yields exactly one allowed outcome "
             "(byte-exact signed payload / digest / signature, or must-reject)",
        assumptions=TX_ASSUME,
    ),
}

# Text for MANIFEST.json (tools/mkmanifest.py)
_TRUST = ("Trusted: TLC 1.8.0, the Java primitives behind spec/Prim.tla (validated on standard vectors at setup), the "
          "executor's faithful rendering/recording. 256-bit data is sampled (boundaries enumerated), structure is "
          "enumerated exhaustively within the stated bounds.")
MANIFEST_TEXT = {
    "C06": dict(
        text="Every generated transaction document is executed by the real library and its kind, signing digest, "
             "signature and signed bytes are validated by TLC against the TLA+ layouts (Tx.tla/Rlp.tla); a strict "
             "RLP decoder written in TLA+ must recover every field and the recovered signer must be the key's address.",
        design_ref="6 (C06)", note=_TRUST,
        technique="TLA+ spec + TLC trace validation of generated workloads (spec-to-impl replay)"),
}
