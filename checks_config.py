"""Per-property plumbing tables for ./check (no property logic: which TLC
modules to run as model check / generator, how many shards, evidence text)."""

TX_ASSUME = ["sampled over 256-bit field values (exhaustive over structure, boundaries enumerated by the spec)"]


# Spec -> implementation for the concurrent vanity search: every complete behaviour of MC_Vanity (sampled by a stride,
# canonical in the order of the workers' first requests) becomes a schedule that the LD_PRELOAD shim enforces on the
# real binary (spec/Gen_C18sched.tla).  Bounds: N workers / at most R granted requests.
def _sched(ns_quick, ns_thorough):
    out = []
    for n, r in ns_thorough:
        quick = dict(ns_quick).get(n)
        if quick is not None and quick == r:
            out.append(dict(cfg="Gen_C18sched_N%d.cfg" % n, workers=8, env=dict(VERIF_VANITY_REQ=str(r))))
        else:
            if quick is not None:
                out.append(dict(cfg="Gen_C18sched_N%d.cfg" % n, workers=8, env=dict(VERIF_VANITY_REQ=str(quick)), tiers=("quick",)))
            out.append(dict(cfg="Gen_C18sched_N%d.cfg" % n, workers=16, env=dict(VERIF_VANITY_REQ=str(r)), tiers=("thorough",)))
    return out


SCHED_FULL = dict(module="Gen_C18sched", behaviours=_sched([(0, 4), (1, 4), (2, 4), (3, 3)], [(0, 5), (1, 5), (2, 5), (3, 4)]))
SCHED_SMALL = dict(module="Gen_C18sched", behaviours=_sched([(0, 4), (1, 4), (2, 4)], [(0, 5), (1, 5), (2, 5)]))

CHECKS = {
    "C06": dict(
        level="model_checking",
        mc=[dict(module="MC_Tx", workers=8), dict(module="MC_Rlp", workers=16)],
        gen=[dict(module="Gen_C06", slices=dict(quick=16, thorough=16))],
        rule="MC_Tx: over 396 structurally distinct transactions no two share a signing or signed payload, the strict decoder "
             "recovers the signed items, the EIP-155 tail / type byte / v rules hold, kind dispatch over all 1024 key subsets; "
             "TLC enumerates Gen_C06 (presence lattice of dispatch keys x recipient mode, boundary values in every "
             "numeric slot of every kind, calldata lengths, access-list shapes, chain ids x nonces, PRNG documents); "
             "non-trivial = distinct documents for which the specification yields exactly one allowed outcome "
             "(byte-exact signed payload / digest / signature, or must-reject)",
        assumptions=TX_ASSUME,
    ),
    "C07": dict(
        level="model_checking",
        mc=[dict(module="MC_Rlp", workers=16)],
        gen=[dict(module="Gen_C07", slices=dict(quick=8, thorough=16))],
        rule="MC_Rlp: exhaustive round trip / non-canonical-variant rejection / header inverse over the bounded "
             "universe; Gen_C07: calldata of every length 0..Lmax and every byte value, every integer width 1..32 "
             "(min, max), access-list payload sizes across 55/56, 255/256, 65535/65536, calldata around 2^16 (2^24 "
             "thorough), hook sweeps of rlp::{len,bytes,uint,list}; non-trivial = distinct inputs with a byte-exact "
             "expectation",
        assumptions=TX_ASSUME,
    ),
    "C01": dict(
        level="model_checking",
        mc=[dict(module="MC_Bip39", workers=8)],
        gen=[dict(module="Gen_C01", slices=dict(quick=8, thorough=16))],
        rule="MC_Bip39: the unpack/pack loops on symbolic bit tokens for every word count 0..40 (universal over "
             "entropy data); Gen_C01: every word count 0..40 x 4 entropy patterns (adversarial truncated-checksum "
             "phrases for non-standard counts), every checksum bit flipped, unknown/case-variant tokens at 4 positions, "
             "every word index at every position of a 24-word phrase (stride 16 quick / 1 thorough), all 2048 "
             "candidates for the final word, whitespace layouts, 960 one-hot entropies through generation; "
             "non-trivial = distinct phrases of list words with a singleton allowed outcome",
        assumptions=["SHA-256 is a trusted primitive", "the spec's word list is the pinned canonical BIP-39 list"],
    ),
    "C02": dict(
        level="model_checking",
        mc=[dict(module="MC_Bip39", workers=8)],
        gen=[dict(module="Gen_C02", slices=dict(quick=4, thorough=16))],
        rule="Gen_C02: valid phrases of the five lengths x {canonical, irregular whitespace layout} x 28 passphrases "
             "of the normalisation classes (NFKD-equivalent spellings side by side) plus PRNG mixes; every seed is "
             "compared with PBKDF2(UTF8(canonical phrase), UTF8(NFKD(mnemonic+pass)), 2048, 64) from Bip39.tla",
        assumptions=["PBKDF2-HMAC-SHA512 and NFKD are trusted Java primitives (JDK 17 = Unicode 13; passphrase "
                     "alphabet restricted to characters assigned before Unicode 6)"],
    ),
    "C12": dict(
        level="model_checking",
        mc=[dict(module="MC_Bip39", workers=8)] + [dict(module="MC_Vanity", cfg="MC_Vanity_N%d.cfg" % n, tag="MC_Vanity_N%d" % n, workers=16) for n in (0, 1, 2, 3)],
        gen=[dict(module="Gen_C12", slices=dict(quick=8, thorough=8)),
             dict(module="Gen_C12cli", slices=dict(quick=8, thorough=8)), SCHED_SMALL],
        rule="Gen_C12: generation through the interposed getentropy: 960 one-hot feeds (every entropy bit of every "
             "size), pattern/PRNG feeds, every requested length 0..40 with a working and a refusing source (refusal "
             "at request 0 and at 0..3), real OS entropy with logged grants; Gen_C12cli: the real binary under the shim with "
             "refusals at chosen requests; Gen_C18sched: behaviours of MC_Vanity (0..2 workers) replayed as enforced "
             "schedules in the real binary: every placement of a refusal among the threads' requests that the model "
             "reaches within its bounds",
        assumptions=["in-process link-time interposition of getentropy observes exactly what rand::get_entropy receives"],
    ),
    "C03": dict(
        level="model_checking",
        mc=[dict(module="MC_Bytes", workers=16)],
        gen=[dict(module="Gen_C03", slices=dict(quick=8, thorough=16))],
        rule="MC_Bytes: limb arithmetic (add, sub, cmp, add-mod, small mul/div, decimal/hex conversion) equals natural "
             "number arithmetic exhaustively for 3 limbs; Gen_C03: seeds of length 1/16/32/64/65/128 (PRNG, all-FF, "
             "all-zero) x components {0,1,2,44,60,255,256,65535,65536,2^24-1,2^24,2^31-2,2^31-1} x {hardened, "
             "normal}: exhaustive depth 1 (26) and 2 (676), PRNG walks to depth 10",
        assumptions=["HMAC-SHA512 and secp256k1 point multiplication are trusted Java primitives"],
    ),
    "C04": dict(
        level="model_checking",
        mc=[dict(module="MC_Bytes", workers=16)],
        gen=[dict(module="Gen_C04", slices=dict(quick=4, thorough=16))],
        rule="Gen_C04: secrets of every length 0..64 x {small integer left-padded, all-FF, PRNG}; scalars 1,2,3,n-2,n-1,"
             "2^255,2^128; invalid 0,n,n+1,2^256-1; PRNG interior scalars; public key, address and EIP-55 casing "
             "compared with Ecdsa.tla",
        assumptions=["secp256k1 point multiplication and Keccak-256 are trusted Java primitives"],
    ),
    "C05": dict(
        level="model_checking",
        mc=[dict(module="MC_Bytes", workers=16)],
        gen=[dict(module="Gen_C05", slices=dict(quick=8, thorough=16))],
        rule="Gen_C05: keys {1,2,n-1,ganache} x digests {0,1,n-1,n,n+1,2^256-1,2^255} and PRNG (key, digest) pairs; "
             "every signature validated for range, low-s, ECDSA verification, recovery = signer, equality with the "
             "RFC 6979 signature of Ecdsa.tla (digest < n), purity",
        assumptions=["RFC 6979 nonce, modular inverse/product and curve arithmetic are trusted Java primitives"],
    ),
    "C14": dict(
        level="model_checking",
        mc=[dict(module="MC_HdPath", workers=16)],
        gen=[dict(module="Gen_C14", slices=dict(quick=8, thorough=16))],
        rule="MC_HdPath: classification total/exclusive and print/parse inverse over every string up to length 5 (quick) / 6 "
             "(thorough) over {m / ' 0 1 9 - . + SPACE}; Gen_C14: every such string up to length 4 (quick) / 5 (thorough) parsed by the "
             "implementation, boundary indices (2^31-1, 2^31, 2^31+1, 2^32-1, 2^32, 2^64, 10^30) normal/hardened at "
             "depths 1..5 parsed and derived, named spellings, for_index at the boundaries",
        assumptions=[],
    ),
    "C15": dict(
        level="model_checking",
        mc=[dict(module="MC_SigText", workers=8)],
        gen=[dict(module="Gen_C15", slices=dict(quick=8, thorough=16)),
             dict(module="Gen_C15cli", slices=dict(quick=8, thorough=16))],
        rule="MC_SigText: Parse(Print(sig)) = sig with and without prefix for boundary scalars x parity, malformed "
             "classes rejected; Gen_C15: spec-printed signatures (as printed / without 0x / open spellings), every "
             "length 0..140, non-hex in each region, v in {0,1,26,29,255}, r/s in {0,n,n+1,2^256-1,1,n-1}; "
             "CLI sessions sign --signature-only -> hash --signature vs sign (Gen_C15cli)",
        assumptions=[],
    ),
    "C08": dict(
        level="model_checking",
        mc=[dict(module="MC_Eip712", workers=16),
            dict(module="MC_Eip712", tag="MC_Eip712_4types", workers=16, tiers=("thorough",), env=dict(MC_TYPES="4", MC_REFS="2"))],
        gen=[dict(module="Gen_C08", slices=dict(quick=16, thorough=16))],
        rule="MC_Eip712: the dependency work-list equals the declarative closure, never repeats the primary type and "
             "terminates, for ALL reference tables of 3 struct types with <= 2 (quick) / 3 (thorough) references each "
             "x every primary; Gen_C08: every such table rendered as a document (names B/a/Aa: byte order != insertion "
             "order != case-insensitive order; reference forms plain/[]/[2][]/[][1] rotating), 100 atomic types x 4 "
             "boundary values x 4 positions, PRNG documents (<= 5 struct types, <= 6 members, nesting, all 31 domain "
             "shapes)",
        assumptions=["Keccak-256 is a trusted primitive"],
    ),
    "C20": dict(
        level="model_checking",
        mc=[dict(module="MC_Domain", workers=16)],
        gen=[dict(module="Gen_C20", slices=dict(quick=16, thorough=16))],
        rule="MC_Domain: the ordered scan accepts exactly the non-empty subsequences of the standard members with "
             "their standard types, for ALL member sequences up to length 5 (quick) / 6 (thorough) over 5 standard "
             "names + a foreign one x {right type, wrong type}; Gen_C20: every sequence up to length 3 (quick) / 4 "
             "(thorough) over the 11 typed choices, all 326 duplicate-free orderings, one wrong type in each position "
             "of the 31 well-formed types, PRNG sequences of length 4..7, a document without a domain type",
        assumptions=[],
    ),
    "C09": dict(
        level="model_checking",
        mc=[dict(module="MC_Numbers", workers=16)],
        gen=[dict(module="Gen_C09", slices=dict(quick=16, thorough=16))],
        rule="MC_Numbers: exact denotation of every JSON-number literal up to length 6 over {- 0 1 9 . e +} (total; "
             "equal values get equal denotations); Gen_C09: uintN/intN for N in {8,16,64,128,248,256} (quick) / all 32 "
             "widths (thorough) x the 8 range boundaries x 5 spellings x 5 nesting positions; bytesN for N in 1..32 "
             "with N-1, N, N+1 and 33 bytes; fixed arrays with k-1, k, k+1 elements in outer and inner dimensions; "
             "missing/undeclared members at 3 nesting levels; undefined struct types; 10 type kinds x 11 JSON values",
        assumptions=[],
    ),
    "C10": dict(
        level="model_checking",
        mc=[dict(module="MC_Eip191", workers=16)],
        gen=[dict(module="Gen_C10", slices=dict(quick=4, thorough=8)),
             dict(module="Gen_C10cli", slices=dict(quick=8, thorough=8))],
        rule="MC_Eip191: DecimalAscii(n) canonical and inverted by Atoi for every n in 0..20000 (quick) / 0..1000001 "
             "(thorough); Gen_C10: every message length 0..1100 with position dependent "
             "content, all 256 one-byte messages, non-UTF-8 and whitespace-only content, lengths 10^k-1, 10^k, 10^k+1 "
             "for k = 4, 5 (quick) and 6 (thorough); Gen_C10cli: `hash message` / `sign message` of the real binary on the "
             "four input channels (regular file, stdin, named pipe, /dev/stdin) x content with 37 prefixes / suffixes that "
             "text tools strip or translate (byte order marks, line ends, NUL, hex and option lead-ins, the EIP-191 "
             "prefix itself) x 4 bodies, every length 0..70, every first byte",
        assumptions=["Keccak-256 is a trusted primitive"],
    ),
    "C13": dict(
        level="model_checking",
        mc=[dict(module="MC_Numbers", workers=16)],
        gen=[dict(module="Gen_C13", slices=dict(quick=8, thorough=16))],
        rule="MC_Numbers (see C09); Gen_C13: 16 boundary integers x 10 spellings in rotating (quick) / all 16 (thorough) "
             "numeric slots of the three kinds, 56 malformed spellings x 3 slots, byte fields / recipients / storage "
             "keys of wrong length, prefix and case, wrong-shape access-list entries, chainId null",
        assumptions=TX_ASSUME,
    ),
    "C11": dict(
        level="model_checking",
        mc=[dict(module="MC_Wallet", workers=16), dict(module="MC_Tx", workers=8)],
        gen=[dict(module="Gen_C11", slices=dict(quick=16, thorough=16), profiles=dict(quick=["dev"], thorough=["dev", "release"]))],
        rule="MC_Wallet: the CLI stage machine over concrete commands: every behaviour ends in printed / failed / open, "
             "a legacy transaction without chain id is printed by `sign` only with the override flag, a printed "
             "transaction carries its chain id and the exact integer v; Gen_C11: kind x chain id {absent, null, 0, 1, "
             "2^32, 2^63, 2^64-1, 2^64, 31-byte, 2^255-19, 2^255-18, 2^256-1} x override flag x --signature-only x 3 "
             "bodies against the real binary (dev profile; thorough also the release profile), plus unguarded hashing",
        assumptions=["exit status / stdout of the binary built from /repo are what a user observes"],
    ),
    "C19": dict(
        level="model_checking",
        mc=[dict(module="MC_HexCodec", workers=16)],
        gen=[dict(module="Gen_C19", slices=dict(quick=8, thorough=16))],
        rule="MC_HexCodec: Decode(layout(Encode(b))) = b for all byte strings up to length 2 over {00,0f,a0,ff} x every "
             "placement of {nothing, space, newline} in each gap x case x prefix; corruptions rejected; Gen_C19: "
             "encode -> decode sessions through the real binary for every length 0..64, 255, 256, 1023, 4095, 4096 "
             "(quick) / 0..4096 (thorough), PRNG re-layouts of the hex text, malformed and non-UTF-8 input, file and stdin",
        assumptions=["exit status / stdout of the binary built from /repo are what a user observes"],
    ),
    "C16": dict(
        level="model_checking",
        mc=[dict(module="MC_Wallet", workers=16), dict(module="MC_Args", workers=12)],
        gen=[dict(module="Gen_C16", slices=dict(quick=16, thorough=16))],
        rule="MC_Wallet (see C11): sign/hash agreement, selectors exclusive, flag/environment equivalence on the stage "
             "machine; MC_Args: the command line token machine (Args.tla, the first stage of Wallet.tla) stepped token by token "
             "over every command form x option source lattice x 40 spelling styles and every single-token slip: rendering and "
             "parsing are inverse, the meaning is style-invariant, slips are refused, 30 lines observed on the real binary are "
             "theorems; Gen_C16: spelling styles and slips of the command line (selectors split around the inner subcommand "
             "must be refused), PRNG sample over 13 command forms (cycled) x 4 mnemonics x 5 passphrases x 11 selectors "
             "x flag/env per option x file/stdin; the exhaustive 54-point option source lattice on address/export/"
             "public-key; sessions hash X - address - sign X whose real outputs must agree (recover(sign, hash) = "
             "address); missing/invalid mnemonics and unusable selectors",
        assumptions=["exit status / stdout of the binary built from /repo are what a user observes"],
    ),
    "C18": dict(
        level="model_checking",
        mc=[dict(module="MC_Vanity", cfg="MC_Vanity_N%d.cfg" % n, tag="MC_Vanity_N%d" % n, workers=16) for n in (0, 1, 2, 3)]
           + [dict(module="MC_Vanity", cfg="MC_Vanity_N4.cfg", tag="MC_Vanity_N4", workers=16, tiers=("thorough",), env=dict(VERIF_VANITY_REQ="4"))]
           + [dict(module="MC_Prefix", workers=8),
              # unbounded number of requests: inductive invariant discharged symbolically
              dict(apalache="VanityInd", tag="VanityInd_N3", cinit="ConstInit", init="Init", indinit="IndInit", inv="IndInv"),
              dict(apalache="VanityInd", tag="VanityInd_N6", cinit="ConstInit6", init="Init", indinit="IndInit", inv="IndInv",
                   tiers=("thorough",)),
              # the machine WITH the judge's observer: JudgeSound as part of an inductive invariant, unbounded requests
              dict(apalache="VanityObsInd", tag="VanityObsInd_N3", cinit="ConstInit", init="Init", indinit="IndInit", inv="IndInv",
                   timeout=3000),
              dict(apalache="VanityObsInd", tag="VanityObsInd_N4", cinit="ConstInit4", init="Init", indinit="IndInit", inv="IndInv",
                   tiers=("thorough",), timeout=14000),
              # every number of workers, every candidate space, unbounded requests: machine-checked proof
              dict(tlaps="VanityProof", tag="VanityProof"),
              # ... and the judge's soundness for every number of workers: Spec => []JudgeSound
              dict(tlaps="VanityObsProof", tag="VanityObsProof")],
        gen=[dict(module="Gen_C18", slices=dict(quick=8, thorough=8), profiles=dict(quick=["dev"], thorough=["dev", "release"])),
             SCHED_FULL],
        rule="MC_Vanity: all interleavings of main + N in 0..3 (thorough: 0..4) workers + channel + granting/refusing entropy environment "
             "(3 abstract candidates, every matching subset, <= 4 (quick) / 5 (thorough) requests): a printed phrase is a "
             "granted match, the judge's observer fold admits every behaviour (no false alarm), pending messages lead "
             "to exit (liveness under weak fairness); Apalache discharges the inductive invariant VanityInd!IndInv (Init => Inv, "
             "Inv /\\ Next => Inv') for 3 (thorough: 6) workers WITHOUT a bound on the number of requests: a printed phrase is a "
             "granted match in every reachable state; Apalache also discharges VanityObsInd!IndInv, an inductive invariant of "
             "the machine TOGETHER WITH the judge's observer that contains JudgeSound (every request passes the judge's guard, "
             "every exit is one the judge admits) without a bound on the requests, for 3 (thorough: 4) workers - the observer "
             "operators are shared with MC_Vanity, where TLC checks that they agree with those of Vanity.tla; TLAPS checks a proof (spec/tlaps/VanityProof.tla, 106 obligations) of "
             "the same safety property and of 'nothing is printed unless the run exits through printed' for EVERY number of "
             "workers and candidates, and a second proof (spec/tlaps/VanityObsProof.tla, 505 obligations) of Spec => []JudgeSound "
             "for the machine with the observer: the judge admits every behaviour for every number of workers, every "
             "candidate space and any number of requests; MC_Prefix: prefix grammar over all strings <= 4 over "
             "{0..9 a f A F g x}; Gen_C18: real searches under the entropy shim: 22 single digits x -j {0,1,2,16}, "
             "two-digit (three-digit thorough) prefixes in lower/upper/mixed case, vanity password/index/path/length "
             "variants, repetitions, non-hex prefixes and unusable selectors; Gen_C18sched (spec -> implementation): the "
             "complete behaviours of MC_Vanity for 0..3 workers (<= 4 requests, 3 with 3 workers; thorough 5 / 4), canonical "
             "in the order of the workers' first requests, every behaviour that prints and every 9th (thorough 3rd) that "
             "fails, are REPLAYED in the real binary: the shim answers the threads in the model's order with spec-made "
             "entropy whose phrase matches the prefix exactly when the model's candidate does; the run must be able to follow "
             "the schedule, must exit when the behaviour ends, and is then validated like every other run",
        assumptions=["the LD_PRELOAD shim logs grants in an order consistent with what each thread observed (sequence "
                     "number and line written under one mutex after the bytes are in the caller's buffer)",
                     "schedules of the real binary are sampled; exhaustive interleaving results are for the model"],
    ),
    "C17": dict(
        level="exploration",
        judge="JudgeCrash",
        mc=[],
        gen=[dict(module="Gen_C17", slices=dict(quick=16, thorough=16), profiles=dict(quick=["dev"], thorough=["dev", "release"]))]
            + [dict(module=m, slices=dict(quick=16, thorough=16), as_tier="quick") for m in
               ("Gen_C14", "Gen_C15", "Gen_C13", "Gen_C11", "Gen_C09", "Gen_C12", "Gen_C12cli", "Gen_C19", "Gen_C04", "Gen_C20")]
            # thorough: every other workload as well, at its quick size (as_tier), so that the whole union stays tractable
            + [dict(module=m, slices=dict(thorough=16), tiers=("thorough",), as_tier="quick") for m in
               ("Gen_C01", "Gen_C02", "Gen_C03", "Gen_C05", "Gen_C06", "Gen_C07", "Gen_C08", "Gen_C10", "Gen_C16", "Gen_C18", "Gen_C15cli")],
        rule="every event of the union of the workloads is validated against the crash-free specification (JudgeCrash: no "
             "panic / exit 101 / signal / timeout / silent error): Gen_C17 (single token-class edits at every position of "
             "accepted path, signature, phrase and JSON texts; 44 hostile JSON values in every transaction field and 11 "
             "typed-data member types; hostile document shapes, nesting to 127; 45 member type strings with up to 64 array "
             "suffixes; PRNG strings to every parser; 32 hostile values in 9 CLI option slots; -j 0..64; 19 file/stdin "
             "contents x 11 reading commands; missing files) plus the boundary workloads of C04, C09, C11, C12, C13, C14, "
             "C15, C19, C20 (quick) and of all properties (thorough; the other workloads at their quick size, Gen_C17 at its thorough size, both build profiles). distinct_nontrivial = distinct inputs the "
             "implementation ACCEPTED (got past every validation stage), counted from the recorded outcomes",
        assumptions=["sampling guided by the specification's boundary structure, not a proof of panic freedom",
                     "bounded as the property states: JSON nesting <= 128, array suffixes <= 64, threads <= 64, prefixes <= 3 digits"],
    ),
}

# Text for MANIFEST.json (tools/mkmanifest.py)
_TRUST = ("Trusted: TLC 1.8.0, the Java primitives behind spec/Prim.tla (validated on standard vectors at setup), the "
          "executor's faithful rendering/recording. 256-bit data is sampled (boundaries enumerated), structure is "
          "enumerated exhaustively within the stated bounds.")
MANIFEST_TEXT = {
    "C06": dict(
        text="Every generated transaction document is executed by the real library and its kind, signing digest, "
             "signature and signed bytes are validated by TLC against the TLA+ layouts (Tx.tla/Rlp.tla); a strict "
             "RLP decoder written in TLA+ must recover every field and the recovered signer must be the key's address.",
        design_ref="6 (C06)", note=_TRUST,
        technique="TLA+ spec + TLC trace validation of generated workloads (spec-to-impl replay)"),
    "C01": dict(
        text="TLC checks on the specification that the accumulator loop and the 64-bit window read implement the "
             "declarative 8-bit/11-bit regrouping for all word counts and, run on symbolic bit tokens, for all "
             "entropy values; every generated phrase (valid, damaged, adversarial for wrong length tables, all words "
             "x positions, all final-word candidates) is parsed by the real library and the outcome validated by "
             "TLC against Bip39.tla's acceptance predicate, canonical print and length.",
        design_ref="6 (C01)", note=_TRUST,
        technique="TLC model check on symbolic bits + TLC trace validation of spec-generated phrases"),
    "C02": dict(
        text="Every seed returned by the real library for spec-generated (phrase layout, passphrase) pairs is validated "
             "by TLC against the TLA+ definition over the PBKDF2/NFKD primitives, which makes layout independence and "
             "NFKD equivalence consequences of the definition.",
        design_ref="6 (C02)", note=_TRUST + " TLA+ is an executable functional reference here.",
        technique="TLA+ functional spec + TLC trace validation"),
    "C12": dict(
        text="Generation is run against an interposed entropy source whose grants/refusals are logged; TLC validates "
             "each recorded generation against the spec: printed phrase = PhraseOf(granted bytes), entropy is a slice "
             "of one grant, a refusal forces an error, unsupported lengths are refused, the phrase parses back.",
        design_ref="6 (C12)", note=_TRUST,
        technique="TLA+ environment model + TLC trace validation with fault injection at every request"),
    "C03": dict(
        text="The BIP-32 CKDpriv step is a TLA+ action (data layout, Ser32 with hardened bit, IL < n, (IL + k) mod n "
             "by limb arithmetic, chain-code carry); derivations along generated paths by the real library are "
             "validated by TLC against the fold of that action.",
        design_ref="6 (C03)", note=_TRUST + " Limb arithmetic is checked against natural-number arithmetic by MC_Bytes.",
        technique="TLA+ step-machine spec + TLC trace validation"),
    "C04": dict(
        text="Acceptance of secrets by length/range, the 65-byte public key, the address slice and the EIP-55 casing "
             "are TLA+ definitions over the curve/Keccak primitives; every key the library builds from the generated "
             "byte strings is validated by TLC.",
        design_ref="6 (C04)", note=_TRUST, technique="TLA+ functional spec + TLC trace validation"),
    "C05": dict(
        text="Every signature produced by the library is validated by TLC for range, low-s, verification, recovery "
             "of the signer and equality with the spec's RFC 6979 signature (low-s flip and parity flip in TLA+).",
        design_ref="6 (C05)", note=_TRUST, technique="TLA+ functional spec + TLC trace validation"),
    "C14": dict(
        text="The path grammar is a TLA+ classifier (accept / reject / open) model-checked for totality and "
             "print-parse inversion; every short string over the path alphabet and all boundary indices are parsed, "
             "printed and derived by the real library and validated by TLC, including that no accepted text derives "
             "the key of a different canonical path.",
        design_ref="6 (C14)", note=_TRUST, technique="TLC exhaustive model check of the grammar + trace validation"),
    "C15": dict(
        text="Signature text printer/parser are TLA+ definitions, model-checked for inversion; the library's "
             "Display/FromStr and the CLI sign/hash interoperation sessions are validated by TLC against them.",
        design_ref="6 (C15)", note=_TRUST, technique="TLC model check + trace validation of library calls and CLI sessions"),
    "C08": dict(
        text="encodeType's dependency work-list is model-checked against the declarative closure over all small "
             "reference tables; the three public digests of spec-generated documents (all those tables, all atomic "
             "types at their boundaries in four positions, PRNG documents) computed by the real library are validated "
             "by TLC against Eip712.tla's hashStruct/encodeType/encodeData.",
        design_ref="6 (C08)", note=_TRUST,
        technique="TLC exhaustive model check of the closure machine + trace validation of generated documents"),
    "C20": dict(
        text="The ordered scan of the domain type is model-checked against the declarative subsequence rule over all "
             "short typed member sequences; every such sequence is also submitted to the real library as a complete "
             "document and the accept/refuse outcome (and digests when accepted) validated by TLC.",
        design_ref="6 (C20)", note=_TRUST,
        technique="TLC exhaustive model check of the scan machine + trace validation"),
    "C09": dict(
        text="Conformance of a JSON value to its declared type is a TLA+ predicate over exact number denotations "
             "(digit-string arithmetic, no floating point); every generated document with a value at or beyond a "
             "range/length/shape boundary is submitted to the real library and TLC checks that non-conforming values "
             "are refused and conforming ones hash to the C08 digests.",
        design_ref="6 (C09)", note=_TRUST,
        technique="TLC model check of the number denotation + trace validation of boundary documents"),
    "C10": dict(
        text="The EIP-191 digest is a TLA+ definition (prefix, DecimalAscii of the byte length, message) over the "
             "Keccak primitive; DecimalAscii is model-checked for every length up to 10^6+1, and the library's digests "
             "for every generated message are validated by TLC.",
        design_ref="6 (C10)", note=_TRUST + " TLA+ is an executable functional reference here.",
        technique="TLC model check of DecimalAscii + trace validation"),
    "C13": dict(
        text="Number spellings have an exact denotation in TLA+ (model-checked for totality and consistency over all "
             "short literals); every generated transaction document is decoded, signed and encoded by the real "
             "library and TLC validates that standard spellings are accepted with the denoted integer (identical "
             "encodings across spellings), malformed ones refused, and open spellings either refused or exact.",
        design_ref="6 (C13)", note=_TRUST,
        technique="TLC model check of the number denotation + trace validation"),
    "C11": dict(
        text="The replay-protection guard is a stage of the TLA+ CLI pipeline (Wallet.tla) whose only successor for an "
             "unprotected legacy transaction without the override flag is failure; v is computed on unbounded limb "
             "integers.  TLC model-checks the stage machine and validates every run of the real binary over the "
             "configuration lattice (exit status, stdout) against it.",
        design_ref="6 (C11)", note=_TRUST,
        technique="TLC model check of the CLI stage machine + trace validation of real-binary runs"),
    "C19": dict(
        text="Hex encode/decode are TLA+ definitions model-checked for inversion under every layout; runs of the real "
             "binary (sessions encode -> decode with the data flowing at run time, re-laid-out and malformed text) are "
             "validated by TLC.",
        design_ref="6 (C19)", note=_TRUST,
        technique="TLC model check + trace validation of CLI sessions"),
    "C16": dict(
        text="Every command form is a path through the TLA+ CLI pipeline (Wallet.tla): option sources, account "
             "resolution (BIP-39 seed, BIP-32 path), input, digest, signature, print; the first stage is the command line "
             "grammar as a token machine (Args.tla: option spellings, sources flag / environment, conflicts).  TLC model-checks the "
             "stage machine and the token machine and validates exit status and stdout of the real binary for sampled commands, the full option "
             "source lattice and multi-command sessions whose outputs must be mutually consistent.",
        design_ref="6 (C16)", note=_TRUST,
        technique="TLC model check of the CLI stage machine and the command line token machine + trace validation of real-binary runs and sessions"),
    "C18": dict(
        text="The vanity search is a TLA+ model (Vanity.tla: main, workers, channel, entropy environment) whose "
             "interleavings TLC explores exhaustively; the same observer operators fold the shim's ordered entropy log of "
             "each real run, and TLC validates that the printed phrase is a current, granted candidate of some thread "
             "whose selected account's address has the requested nibbles, that every request is one the model's worker "
             "would make, and that bad prefixes are refused.  The safety property and the observer's soundness (the judge "
             "admits every behaviour of the machine) are also machine-checked without bounds: Apalache discharges inductive "
             "invariants for unbounded requests, TLAPS checks proofs for every number of workers and candidates.",
        design_ref="6 (C18)", note=_TRUST,
        technique="TLC exhaustive interleaving model check (+ Apalache inductive invariants, TLAPS proofs of the same spec) + replay "
                  "of TLC-generated behaviours as enforced thread schedules in the real binary + trace validation of real "
                  "concurrent runs via an entropy shim"),
    "C17": dict(
        text="The specification has no crash transition (library calls return Ok/Err, every pipeline of Wallet.tla ends in "
             "printed/failed/open).  TLC validates every recorded event of the union of the generated workloads - boundary "
             "values of every grammar plus spec-directed damage of accepted inputs and hostile values in every argument "
             "slot - against that: a panic, exit status 101, signal, timeout or silent error is a deviation.",
        design_ref="6 (C17)", note="Exploration: sampled, guided by the specification's token classes and boundaries; not a "
                                    "proof of panic freedom. " + _TRUST,
        technique="spec-directed generation + TLC trace validation against the crash-free specification"),
    "C07": dict(
        text="TLC proves on the specification (MC_Rlp, exhaustive over a bounded structurally complete universe) that "
             "the strict decoder inverts the encoder and rejects every non-canonical variant; the implementation is "
             "bound to that encoder by trace validation: signed transactions sweeping every calldata length / byte "
             "value / integer width / list size boundary must equal the spec encoding byte for byte and decode "
             "strictly to the original values; the private rlp functions are swept directly through the hooks.",
        design_ref="6 (C07)", note=_TRUST,
        technique="TLC exhaustive model check of the RLP spec + TLC trace validation binding the implementation"),
}
