// Trace / workload I/O helpers for the TLA+ side (module HdwIO):
//   Emit(chan, v)      append v as one JSON line to $HDW_OUT.<chan>   (always TRUE)
//   HexToBytes(s)      "00ff" (optional 0x) -> <<0, 255>>     (trace data representation only)
//   BytesToHex(b)      <<0, 255>> -> "00ff"
// No property logic lives here.
import java.io.BufferedWriter;
import java.io.FileWriter;
import java.io.IOException;
import java.util.HashMap;
import java.util.Map;

import tlc2.overrides.TLAPlusOperator;
import tlc2.value.impl.BoolValue;
import tlc2.value.impl.FcnRcdValue;
import tlc2.value.impl.IntValue;
import tlc2.value.impl.ModelValue;
import tlc2.value.impl.RecordValue;
import tlc2.value.impl.SetEnumValue;
import tlc2.value.impl.StringValue;
import tlc2.value.impl.TupleValue;
import tlc2.value.impl.Value;

public final class HdwIO {
    private HdwIO() {}

    private static final Map<String, BufferedWriter> OUT = new HashMap<>();

    static {
        Runtime.getRuntime().addShutdownHook(new Thread(() -> {
            synchronized (OUT) {
                for (BufferedWriter w : OUT.values()) {
                    try { w.close(); } catch (IOException e) { /* ignore */ }
                }
            }
        }));
    }

    @TLAPlusOperator(identifier = "Emit", module = "HdwIO", warn = false)
    public static Value emit(final Value chan, final Value v) throws IOException {
        String c = ((StringValue) chan).val.toString();
        StringBuilder sb = new StringBuilder();
        json(v, sb);
        sb.append('\n');
        synchronized (OUT) {
            BufferedWriter w = OUT.get(c);
            if (w == null) {
                String base = System.getenv("HDW_OUT");
                if (base == null) throw new IOException("HDW_OUT not set");
                w = new BufferedWriter(new FileWriter(base + "." + c, true));
                OUT.put(c, w);
            }
            w.write(sb.toString());
            w.flush();
        }
        return BoolValue.ValTrue;
    }

    static void json(Value v, StringBuilder sb) {
        if (v instanceof IntValue) {
            sb.append(((IntValue) v).val);
        } else if (v instanceof BoolValue) {
            sb.append(((BoolValue) v).val ? "true" : "false");
        } else if (v instanceof StringValue) {
            str(((StringValue) v).val.toString(), sb);
        } else if (v instanceof ModelValue) {
            str(v.toString(), sb);
        } else if (v instanceof RecordValue) {
            RecordValue r = (RecordValue) v;
            sb.append('{');
            for (int i = 0; i < r.names.length; i++) {
                if (i > 0) sb.append(',');
                str(r.names[i].toString(), sb);
                sb.append(':');
                json(r.values[i], sb);
            }
            sb.append('}');
        } else if (v instanceof TupleValue) {
            Value[] e = ((TupleValue) v).elems;
            sb.append('[');
            for (int i = 0; i < e.length; i++) {
                if (i > 0) sb.append(',');
                json(e[i], sb);
            }
            sb.append(']');
        } else if (v instanceof SetEnumValue) {
            SetEnumValue s = (SetEnumValue) v;
            s.normalize();
            sb.append('[');
            for (int i = 0; i < s.elems.size(); i++) {
                if (i > 0) sb.append(',');
                json(s.elems.elementAt(i), sb);
            }
            sb.append(']');
        } else {
            Value t = v.toTuple();
            if (t != null) { json(t, sb); return; }
            Value r = v.toRcd();
            if (r != null) { json(r, sb); return; }
            if (v instanceof FcnRcdValue) {
                FcnRcdValue f = (FcnRcdValue) v;
                sb.append('[');
                for (int i = 0; i < f.values.length; i++) {
                    if (i > 0) sb.append(',');
                    sb.append('[');
                    json(f.domain[i], sb);
                    sb.append(',');
                    json(f.values[i], sb);
                    sb.append(']');
                }
                sb.append(']');
                return;
            }
            Value s = v.toSetEnum();
            if (s != null) { json(s, sb); return; }
            throw new IllegalArgumentException("Emit: cannot serialise " + v.getClass());
        }
    }

    static void str(String s, StringBuilder sb) {
        sb.append('"');
        for (int i = 0; i < s.length(); i++) {
            char ch = s.charAt(i);
            switch (ch) {
                case '"': sb.append("\\\""); break;
                case '\\': sb.append("\\\\"); break;
                case '\n': sb.append("\\n"); break;
                case '\r': sb.append("\\r"); break;
                case '\t': sb.append("\\t"); break;
                default:
                    if (ch < 0x20 || ch == 0x7f || (ch >= 0xd800 && ch <= 0xdfff) || ch == 0x2028 || ch == 0x2029) {
                        sb.append(String.format("\\u%04x", (int) ch));
                    } else {
                        sb.append(ch);
                    }
            }
        }
        sb.append('"');
    }

    @TLAPlusOperator(identifier = "HexToBytes", module = "HdwIO", warn = false)
    public static Value hexToBytes(final Value s) {
        String h = ((StringValue) s).val.toString();
        if (h.startsWith("0x")) h = h.substring(2);
        if (h.length() % 2 != 0) throw new IllegalArgumentException("odd hex in trace data: " + h);
        byte[] b = new byte[h.length() / 2];
        for (int i = 0; i < b.length; i++) b[i] = (byte) Integer.parseInt(h.substring(2 * i, 2 * i + 2), 16);
        return HdwPrims.tupleOf(b);
    }

    private static final char[] HEX = "0123456789abcdef".toCharArray();

    @TLAPlusOperator(identifier = "BytesToHex", module = "HdwIO", warn = false)
    public static Value bytesToHex(final Value b) {
        byte[] x = HdwPrims.bytesOf(b);
        char[] c = new char[x.length * 2];
        for (int i = 0; i < x.length; i++) {
            c[2 * i] = HEX[(x[i] >> 4) & 15];
            c[2 * i + 1] = HEX[x[i] & 15];
        }
        return new StringValue(new String(c));
    }
}
