// Registers the Java evaluation of spec/Prim.tla's uninterpreted operators with TLC.
// Loaded with -Dtlc2.overrides.TLCOverrides=tlc2.overrides.TLCOverrides:HdwOverrides
// (the first entry keeps the CommunityModules overrides active).
import tlc2.overrides.ITLCOverrides;

public class HdwOverrides implements ITLCOverrides {
    @SuppressWarnings("rawtypes")
    @Override
    public Class[] get() {
        return new Class[] {HdwPrims.class, HdwIO.class};
    }
}
