// Java evaluation of the *uninterpreted primitives* of spec/Prim.tla.
//
// Only what hdwallet's DEPENDENCIES implement lives here (hash functions, HMAC,
// PBKDF2, secp256k1 arithmetic, the RFC 6979 nonce, Unicode NFKD) plus pure
// representation converters between TLA+ strings and byte/code-point
// sequences.  Everything hdwallet's own source implements is TLA+ text.
//
// This oracle shares no code with RustCrypto / k256 / ethnum / hex: JDK
// MessageDigest + Mac, java.math.BigInteger, java.text.Normalizer and a
// hand-written Keccak-f[1600].

import java.math.BigInteger;
import java.nio.charset.StandardCharsets;
import java.security.MessageDigest;
import java.text.Normalizer;
import java.util.Arrays;

import javax.crypto.Mac;
import javax.crypto.spec.SecretKeySpec;

import tlc2.overrides.TLAPlusOperator;
import tlc2.value.impl.BoolValue;
import tlc2.value.impl.IntValue;
import tlc2.value.impl.StringValue;
import tlc2.value.impl.TupleValue;
import tlc2.value.impl.Value;

public final class HdwPrims {
    private HdwPrims() {}

    // ------------------------------------------------------------------ value conversion

    private static final IntValue[] BYTE = new IntValue[256];
    static {
        for (int i = 0; i < 256; i++) BYTE[i] = IntValue.gen(i);
    }

    static byte[] bytesOf(Value v) {
        TupleValue t = (TupleValue) v.toTuple();
        if (t == null) throw new IllegalArgumentException("expected a byte sequence, got " + v);
        Value[] e = t.elems;
        byte[] b = new byte[e.length];
        for (int i = 0; i < e.length; i++) {
            int x = ((IntValue) e[i]).val;
            if (x < 0 || x > 255) throw new IllegalArgumentException("byte out of range: " + x);
            b[i] = (byte) x;
        }
        return b;
    }

    static int[] intsOf(Value v) {
        TupleValue t = (TupleValue) v.toTuple();
        if (t == null) throw new IllegalArgumentException("expected a sequence, got " + v);
        Value[] e = t.elems;
        int[] b = new int[e.length];
        for (int i = 0; i < e.length; i++) b[i] = ((IntValue) e[i]).val;
        return b;
    }

    static Value tupleOf(byte[] b) {
        Value[] e = new Value[b.length];
        for (int i = 0; i < b.length; i++) e[i] = BYTE[b[i] & 0xff];
        return new TupleValue(e);
    }

    static Value tupleOfInts(int[] b) {
        Value[] e = new Value[b.length];
        for (int i = 0; i < b.length; i++) e[i] = IntValue.gen(b[i]);
        return new TupleValue(e);
    }

    static String strOf(Value v) {
        return ((StringValue) v).val.toString();
    }

    static int intOf(Value v) {
        return ((IntValue) v).val;
    }

    static final Value EMPTY = new TupleValue(new Value[0]);

    // ------------------------------------------------------------------ representation converters

    @TLAPlusOperator(identifier = "StrToUtf8", module = "Prim", warn = false)
    public static Value strToUtf8(final Value s) {
        return tupleOf(strOf(s).getBytes(StandardCharsets.UTF_8));
    }

    // Total: invalid UTF-8 is decoded with U+FFFD replacement (callers use IsUtf8 first).
    @TLAPlusOperator(identifier = "Utf8ToStr", module = "Prim", warn = false)
    public static Value utf8ToStr(final Value b) {
        return new StringValue(new String(bytesOf(b), StandardCharsets.UTF_8));
    }

    @TLAPlusOperator(identifier = "StrToCps", module = "Prim", warn = false)
    public static Value strToCps(final Value s) {
        return tupleOfInts(strOf(s).codePoints().toArray());
    }

    @TLAPlusOperator(identifier = "CpsToStr", module = "Prim", warn = false)
    public static Value cpsToStr(final Value cps) {
        int[] c = intsOf(cps);
        return new StringValue(new String(c, 0, c.length));
    }

    // ------------------------------------------------------------------ hashes

    @TLAPlusOperator(identifier = "Sha256", module = "Prim", warn = false)
    public static Value sha256(final Value b) throws Exception {
        return tupleOf(MessageDigest.getInstance("SHA-256").digest(bytesOf(b)));
    }

    @TLAPlusOperator(identifier = "HmacSha512", module = "Prim", warn = false)
    public static Value hmacSha512(final Value key, final Value data) throws Exception {
        return tupleOf(hmac("HmacSHA512", bytesOf(key), bytesOf(data)));
    }

    static byte[] hmac(String alg, byte[] key, byte[] data) throws Exception {
        // javax.crypto refuses empty keys; HMAC with an empty key equals HMAC
        // with a one-zero-byte key (keys are right-padded with zeros).
        if (key.length == 0) key = new byte[1];
        Mac mac = Mac.getInstance(alg);
        mac.init(new SecretKeySpec(key, alg));
        return mac.doFinal(data);
    }

    // PBKDF2 written out from RFC 8018 over HMAC (the JDK's SecretKeyFactory
    // takes char[] passwords, which is no use for arbitrary byte strings).
    @TLAPlusOperator(identifier = "Pbkdf2HmacSha512", module = "Prim", warn = false)
    public static Value pbkdf2(final Value pw, final Value salt, final Value rounds, final Value dkLen)
            throws Exception {
        byte[] p = bytesOf(pw);
        byte[] s = bytesOf(salt);
        int c = intOf(rounds);
        int n = intOf(dkLen);
        if (p.length == 0) p = new byte[1];
        Mac mac = Mac.getInstance("HmacSHA512");
        mac.init(new SecretKeySpec(p, "HmacSHA512"));
        byte[] out = new byte[n];
        int pos = 0;
        for (int block = 1; pos < n; block++) {
            mac.update(s);
            mac.update(new byte[] {(byte) (block >>> 24), (byte) (block >>> 16), (byte) (block >>> 8), (byte) block});
            byte[] u = mac.doFinal();
            byte[] t = u.clone();
            for (int i = 1; i < c; i++) {
                u = mac.doFinal(u);
                for (int j = 0; j < t.length; j++) t[j] ^= u[j];
            }
            int take = Math.min(t.length, n - pos);
            System.arraycopy(t, 0, out, pos, take);
            pos += take;
        }
        return tupleOf(out);
    }

    // ------------------------------------------------------------------ Keccak-256 (original padding 0x01)

    private static final long[] RC = {
        0x0000000000000001L, 0x0000000000008082L, 0x800000000000808aL, 0x8000000080008000L,
        0x000000000000808bL, 0x0000000080000001L, 0x8000000080008081L, 0x8000000000008009L,
        0x000000000000008aL, 0x0000000000000088L, 0x0000000080008009L, 0x000000008000000aL,
        0x000000008000808bL, 0x800000000000008bL, 0x8000000000008089L, 0x8000000000008003L,
        0x8000000000008002L, 0x8000000000000080L, 0x000000000000800aL, 0x800000008000000aL,
        0x8000000080008081L, 0x8000000000008080L, 0x0000000080000001L, 0x8000000080008008L};
    private static final int[] ROT = {1, 3, 6, 10, 15, 21, 28, 36, 45, 55, 2, 14, 27, 41, 56, 8, 25, 43, 62, 18, 39, 61, 20, 44};
    private static final int[] PIL = {10, 7, 11, 17, 18, 3, 5, 16, 8, 21, 24, 4, 15, 23, 19, 13, 12, 2, 20, 14, 22, 9, 6, 1};

    private static void keccakF(long[] st) {
        long[] bc = new long[5];
        for (int round = 0; round < 24; round++) {
            for (int i = 0; i < 5; i++) bc[i] = st[i] ^ st[i + 5] ^ st[i + 10] ^ st[i + 15] ^ st[i + 20];
            for (int i = 0; i < 5; i++) {
                long t = bc[(i + 4) % 5] ^ Long.rotateLeft(bc[(i + 1) % 5], 1);
                for (int j = 0; j < 25; j += 5) st[j + i] ^= t;
            }
            long t = st[1];
            for (int i = 0; i < 24; i++) {
                int j = PIL[i];
                long b = st[j];
                st[j] = Long.rotateLeft(t, ROT[i]);
                t = b;
            }
            for (int j = 0; j < 25; j += 5) {
                for (int i = 0; i < 5; i++) bc[i] = st[j + i];
                for (int i = 0; i < 5; i++) st[j + i] ^= (~bc[(i + 1) % 5]) & bc[(i + 2) % 5];
            }
            st[0] ^= RC[round];
        }
    }

    static byte[] keccak256(byte[] in) {
        final int rate = 136;
        long[] st = new long[25];
        int padded = (in.length / rate + 1) * rate;
        byte[] m = Arrays.copyOf(in, padded);
        m[in.length] ^= 0x01;
        m[padded - 1] ^= (byte) 0x80;
        for (int off = 0; off < padded; off += rate) {
            for (int i = 0; i < rate / 8; i++) {
                long w = 0;
                for (int k = 7; k >= 0; k--) w = (w << 8) | (m[off + i * 8 + k] & 0xffL);
                st[i] ^= w;
            }
            keccakF(st);
        }
        byte[] out = new byte[32];
        for (int i = 0; i < 32; i++) out[i] = (byte) (st[i / 8] >>> (8 * (i % 8)));
        return out;
    }

    @TLAPlusOperator(identifier = "Keccak256", module = "Prim", warn = false)
    public static Value keccak(final Value b) {
        return tupleOf(keccak256(bytesOf(b)));
    }

    // Keccak256Rep(prefix, b, n) = Keccak256(prefix \o [i \in 1..n |-> b]) without building the sequence in TLC
    @TLAPlusOperator(identifier = "Keccak256Rep", module = "Prim", warn = false)
    public static Value keccakRep(final Value prefix, final Value b, final Value n) {
        byte[] pre = bytesOf(prefix);
        int cnt = intOf(n);
        byte[] all = new byte[pre.length + cnt];
        System.arraycopy(pre, 0, all, 0, pre.length);
        Arrays.fill(all, pre.length, all.length, (byte) intOf(b));
        return tupleOf(keccak256(all));
    }

    // ------------------------------------------------------------------ Unicode

    @TLAPlusOperator(identifier = "Nfkd", module = "Prim", warn = false)
    public static Value nfkd(final Value cps) {
        int[] c = intsOf(cps);
        String s = Normalizer.normalize(new String(c, 0, c.length), Normalizer.Form.NFKD);
        return tupleOfInts(s.codePoints().toArray());
    }

    // NormForm("NFD" | "NFC" | "NFKD" | "NFKC", cps)
    @TLAPlusOperator(identifier = "NormForm", module = "Prim", warn = false)
    public static Value normForm(final Value form, final Value cps) {
        int[] c = intsOf(cps);
        Normalizer.Form f = Normalizer.Form.valueOf(((StringValue) form).val.toString());
        String s = Normalizer.normalize(new String(c, 0, c.length), f);
        return tupleOfInts(s.codePoints().toArray());
    }

    // CpClass(cp): the general category class of a code point in the JDK's Unicode version
    @TLAPlusOperator(identifier = "CpClass", module = "Prim", warn = false)
    public static Value cpClass(final Value cp) {
        int c = ((IntValue) cp).val;
        String r;
        if (c < 0 || c > 0x10FFFF) {
            r = "none";
        } else {
            switch (Character.getType(c)) {
                case Character.UNASSIGNED: r = "unassigned"; break;
                case Character.SURROGATE: r = "surrogate"; break;
                case Character.PRIVATE_USE: r = "private"; break;
                case Character.NON_SPACING_MARK:
                case Character.COMBINING_SPACING_MARK:
                case Character.ENCLOSING_MARK: r = "mark"; break;
                default: r = "other";
            }
        }
        return new StringValue(r);
    }

    // ------------------------------------------------------------------ big integers (byte sequences, big-endian)

    static BigInteger big(Value v) {
        return new BigInteger(1, bytesOf(v));
    }

    static byte[] fixed(BigInteger x, int len) {
        byte[] raw = x.toByteArray();
        byte[] out = new byte[len];
        int n = Math.min(len, raw.length);
        System.arraycopy(raw, raw.length - n, out, len - n, n);
        return out;
    }

    // (a * b) mod m, result padded to Len(m) bytes
    @TLAPlusOperator(identifier = "BnMulMod", module = "Prim", warn = false)
    public static Value bnMulMod(final Value a, final Value b, final Value m) {
        BigInteger mm = big(m);
        return tupleOf(fixed(big(a).multiply(big(b)).mod(mm), bytesOf(m).length));
    }

    // a^-1 mod m (m prime, a # 0 mod m), padded to Len(m) bytes
    @TLAPlusOperator(identifier = "BnInvMod", module = "Prim", warn = false)
    public static Value bnInvMod(final Value a, final Value m) {
        BigInteger mm = big(m);
        return tupleOf(fixed(big(a).modInverse(mm), bytesOf(m).length));
    }

    // ------------------------------------------------------------------ secp256k1

    static final BigInteger P = new BigInteger("FFFFFFFFFFFFFFFFFFFFFFFFFFFFFFFFFFFFFFFFFFFFFFFFFFFFFFFEFFFFFC2F", 16);
    static final BigInteger N = new BigInteger("FFFFFFFFFFFFFFFFFFFFFFFFFFFFFFFEBAAEDCE6AF48A03BBFD25E8CD0364141", 16);
    static final BigInteger GX = new BigInteger("79BE667EF9DCBBAC55A06295CE870B07029BFCDB2DCE28D959F2815B16F81798", 16);
    static final BigInteger GY = new BigInteger("483ADA7726A3C4655DA4FBFC0E1108A8FD17B448A68554199C47D08FFB10D4B8", 16);
    static final BigInteger TWO = BigInteger.TWO;
    static final BigInteger THREE = BigInteger.valueOf(3);

    // Jacobian point {X, Y, Z}; infinity is Z = 0.
    static BigInteger[] INF = {BigInteger.ONE, BigInteger.ONE, BigInteger.ZERO};

    static BigInteger[] dbl(BigInteger[] p) {
        if (p[2].signum() == 0 || p[1].signum() == 0) return INF;
        BigInteger x = p[0], y = p[1], z = p[2];
        BigInteger yy = y.multiply(y).mod(P);
        BigInteger s = x.multiply(yy).shiftLeft(2).mod(P);
        BigInteger m = x.multiply(x).multiply(THREE).mod(P); // a = 0
        BigInteger x3 = m.multiply(m).subtract(s.shiftLeft(1)).mod(P);
        BigInteger y3 = m.multiply(s.subtract(x3)).subtract(yy.multiply(yy).shiftLeft(3)).mod(P);
        BigInteger z3 = y.multiply(z).shiftLeft(1).mod(P);
        return new BigInteger[] {x3, y3, z3};
    }

    static BigInteger[] add(BigInteger[] p, BigInteger[] q) {
        if (p[2].signum() == 0) return q;
        if (q[2].signum() == 0) return p;
        BigInteger z1z1 = p[2].multiply(p[2]).mod(P), z2z2 = q[2].multiply(q[2]).mod(P);
        BigInteger u1 = p[0].multiply(z2z2).mod(P), u2 = q[0].multiply(z1z1).mod(P);
        BigInteger s1 = p[1].multiply(q[2]).multiply(z2z2).mod(P), s2 = q[1].multiply(p[2]).multiply(z1z1).mod(P);
        if (u1.equals(u2)) {
            if (s1.equals(s2)) return dbl(p);
            return INF;
        }
        BigInteger h = u2.subtract(u1).mod(P), r = s2.subtract(s1).mod(P);
        BigInteger hh = h.multiply(h).mod(P), hhh = hh.multiply(h).mod(P), v = u1.multiply(hh).mod(P);
        BigInteger x3 = r.multiply(r).subtract(hhh).subtract(v.shiftLeft(1)).mod(P);
        BigInteger y3 = r.multiply(v.subtract(x3)).subtract(s1.multiply(hhh)).mod(P);
        BigInteger z3 = h.multiply(p[2]).multiply(q[2]).mod(P);
        return new BigInteger[] {x3, y3, z3};
    }

    static BigInteger[] mul(BigInteger k, BigInteger[] p) {
        BigInteger[] acc = INF;
        for (int i = k.bitLength() - 1; i >= 0; i--) {
            acc = dbl(acc);
            if (k.testBit(i)) acc = add(acc, p);
        }
        return acc;
    }

    // affine {x, y} or null for infinity
    static BigInteger[] affine(BigInteger[] p) {
        if (p[2].signum() == 0) return null;
        BigInteger zi = p[2].modInverse(P), zi2 = zi.multiply(zi).mod(P);
        return new BigInteger[] {p[0].multiply(zi2).mod(P), p[1].multiply(zi2).multiply(zi).mod(P)};
    }

    static final BigInteger[] G = {GX, GY, BigInteger.ONE};

    static byte[] xy(BigInteger[] a) {
        byte[] out = new byte[64];
        System.arraycopy(fixed(a[0], 32), 0, out, 0, 32);
        System.arraycopy(fixed(a[1], 32), 0, out, 32, 32);
        return out;
    }

    // k*G as X||Y (64 bytes), <<>> for k = 0 mod n
    @TLAPlusOperator(identifier = "EcBaseMul", module = "Prim", warn = false)
    public static Value ecBaseMul(final Value k) {
        BigInteger[] a = affine(mul(big(k).mod(N), G));
        return a == null ? EMPTY : tupleOf(xy(a));
    }

    static BigInteger[] lift(BigInteger x, boolean odd) {
        if (x.compareTo(P) >= 0) return null;
        BigInteger rhs = x.pow(3).add(BigInteger.valueOf(7)).mod(P);
        BigInteger y = rhs.modPow(P.add(BigInteger.ONE).shiftRight(2), P);
        if (!y.multiply(y).mod(P).equals(rhs)) return null;
        if (y.testBit(0) != odd) y = P.subtract(y);
        return new BigInteger[] {x, y, BigInteger.ONE};
    }

    // Public key X||Y recovered from (z, r, s, yParity) with R.x = r (the
    // "x reduced" recovery ids 2/3 are not representable in an Ethereum v);
    // <<>> when no key exists.
    @TLAPlusOperator(identifier = "EcRecover", module = "Prim", warn = false)
    public static Value ecRecover(final Value z, final Value r, final Value s, final Value par) {
        BigInteger rr = big(r), ss = big(s), zz = big(z).mod(N);
        if (rr.signum() == 0 || ss.signum() == 0 || rr.compareTo(N) >= 0 || ss.compareTo(N) >= 0) return EMPTY;
        BigInteger[] R = lift(rr, intOf(par) == 1);
        if (R == null) return EMPTY;
        BigInteger ri = rr.modInverse(N);
        BigInteger u1 = zz.negate().multiply(ri).mod(N), u2 = ss.multiply(ri).mod(N);
        BigInteger[] q = affine(add(mul(u1, G), mul(u2, R)));
        return q == null ? EMPTY : tupleOf(xy(q));
    }

    @TLAPlusOperator(identifier = "EcVerify", module = "Prim", warn = false)
    public static Value ecVerify(final Value z, final Value r, final Value s, final Value pub) {
        BigInteger rr = big(r), ss = big(s), zz = big(z).mod(N);
        byte[] pk = bytesOf(pub);
        if (pk.length != 64) return BoolValue.ValFalse;
        if (rr.signum() == 0 || ss.signum() == 0 || rr.compareTo(N) >= 0 || ss.compareTo(N) >= 0) return BoolValue.ValFalse;
        BigInteger qx = new BigInteger(1, Arrays.copyOfRange(pk, 0, 32)), qy = new BigInteger(1, Arrays.copyOfRange(pk, 32, 64));
        if (!qy.multiply(qy).mod(P).equals(qx.pow(3).add(BigInteger.valueOf(7)).mod(P))) return BoolValue.ValFalse;
        BigInteger si = ss.modInverse(N);
        BigInteger[] q = {qx, qy, BigInteger.ONE};
        BigInteger[] a = affine(add(mul(zz.multiply(si).mod(N), G), mul(rr.multiply(si).mod(N), q)));
        return (a != null && a[0].mod(N).equals(rr)) ? BoolValue.ValTrue : BoolValue.ValFalse;
    }

    // RFC 6979 section 3.2 nonce for secp256k1 with HMAC-SHA256, no additional
    // data.  d: 32-byte key, z: 32-byte digest (reduced mod n as bits2octets says).
    @TLAPlusOperator(identifier = "Rfc6979K", module = "Prim", warn = false)
    public static Value rfc6979k(final Value d, final Value z) throws Exception {
        byte[] x = fixed(big(d), 32);
        byte[] h = fixed(big(z).mod(N), 32);
        byte[] V = new byte[32], K = new byte[32];
        Arrays.fill(V, (byte) 1);
        K = hmac("HmacSHA256", K, cat(V, new byte[] {0}, x, h));
        V = hmac("HmacSHA256", K, V);
        K = hmac("HmacSHA256", K, cat(V, new byte[] {1}, x, h));
        V = hmac("HmacSHA256", K, V);
        while (true) {
            V = hmac("HmacSHA256", K, V);
            BigInteger k = new BigInteger(1, V);
            if (k.signum() > 0 && k.compareTo(N) < 0) return tupleOf(V);
            K = hmac("HmacSHA256", K, cat(V, new byte[] {0}));
            V = hmac("HmacSHA256", K, V);
        }
    }

    // ------------------------------------------------------------------ bulk oracle (module Ecdsa)
    // Native evaluation of Ecdsa!BulkSignHash: SHA-256 over r || s || yParity of the specification's signatures
    // (RFC 6979 nonce, low-s normalisation with parity flip) of the digests SHA-256(seed || i as 8 bytes),
    // i = from .. from + n - 1.  Semantically equal to the TLA+ definition Ecdsa!BulkSignHashSpec, which PrimTest
    // compares it with; it only makes sweeps of 10^5 .. 10^7 signatures feasible (fixed-base comb multiplication).
    static BigInteger[][][] COMB;   // COMB[i][j-1] = j * 256^i * G, affine {x, y}

    static synchronized void comb() {
        if (COMB != null) return;
        BigInteger[][][] t = new BigInteger[32][255][];
        BigInteger[] base = G;
        for (int i = 0; i < 32; i++) {
            BigInteger[] acc = INF;
            for (int j = 1; j <= 255; j++) {
                acc = add(acc, base);
                t[i][j - 1] = affine(acc);
            }
            for (int b = 0; b < 8; b++) base = dbl(base);
            BigInteger[] a = affine(base);
            base = new BigInteger[] {a[0], a[1], BigInteger.ONE};
        }
        COMB = t;
    }

    // Jacobian + affine
    static BigInteger[] addMixed(BigInteger[] p, BigInteger[] q) {
        if (p[2].signum() == 0) return new BigInteger[] {q[0], q[1], BigInteger.ONE};
        BigInteger z1z1 = p[2].multiply(p[2]).mod(P);
        BigInteger u2 = q[0].multiply(z1z1).mod(P);
        BigInteger s2 = q[1].multiply(p[2]).multiply(z1z1).mod(P);
        if (p[0].equals(u2)) {
            if (p[1].equals(s2)) return dbl(p);
            return INF;
        }
        BigInteger h = u2.subtract(p[0]).mod(P), r = s2.subtract(p[1]).mod(P);
        BigInteger hh = h.multiply(h).mod(P), hhh = hh.multiply(h).mod(P), v = p[0].multiply(hh).mod(P);
        BigInteger x3 = r.multiply(r).subtract(hhh).subtract(v.shiftLeft(1)).mod(P);
        BigInteger y3 = r.multiply(v.subtract(x3)).subtract(p[1].multiply(hhh)).mod(P);
        BigInteger z3 = h.multiply(p[2]).mod(P);
        return new BigInteger[] {x3, y3, z3};
    }

    static BigInteger[] baseMulFast(BigInteger k) {
        comb();
        byte[] kb = fixed(k, 32);
        BigInteger[] acc = INF;
        for (int i = 0; i < 32; i++) {
            int d = kb[31 - i] & 0xff;
            if (d != 0) acc = addMixed(acc, COMB[i][d - 1]);
        }
        return affine(acc);
    }

    static final BigInteger HALF_N = N.shiftRight(1);

    @TLAPlusOperator(identifier = "BulkSignHash", module = "Ecdsa", warn = false)
    public static Value bulkSignHash(final Value d, final Value seed, final Value from, final Value n) throws Exception {
        byte[] x = fixed(big(d), 32), sd = bytesOf(seed);
        BigInteger dd = new BigInteger(1, x);
        long lo = intOf(from);
        int cnt = intOf(n);
        MessageDigest all = MessageDigest.getInstance("SHA-256");
        MessageDigest one = MessageDigest.getInstance("SHA-256");
        Mac mac = Mac.getInstance("HmacSHA256");
        byte[] ctr = new byte[8];
        for (long i = lo; i < lo + cnt; i++) {
            for (int b = 0; b < 8; b++) ctr[b] = (byte) (i >>> (56 - 8 * b));
            one.update(sd);
            byte[] z = one.digest(ctr);
            BigInteger e = new BigInteger(1, z).mod(N);
            byte[] h = fixed(e, 32);
            // RFC 6979 3.2
            byte[] V = new byte[32], K = new byte[32];
            Arrays.fill(V, (byte) 1);
            mac.init(new SecretKeySpec(K, "HmacSHA256")); mac.update(V); mac.update((byte) 0); mac.update(x); K = mac.doFinal(h);
            mac.init(new SecretKeySpec(K, "HmacSHA256")); V = mac.doFinal(V);
            mac.update(V); mac.update((byte) 1); mac.update(x); K = mac.doFinal(h);
            mac.init(new SecretKeySpec(K, "HmacSHA256")); V = mac.doFinal(V);
            BigInteger k;
            while (true) {
                V = mac.doFinal(V);
                k = new BigInteger(1, V);
                if (k.signum() > 0 && k.compareTo(N) < 0) break;
                mac.update(V); K = mac.doFinal(new byte[] {0});
                mac.init(new SecretKeySpec(K, "HmacSHA256")); V = mac.doFinal(V);
            }
            BigInteger[] R = baseMulFast(k);
            BigInteger r = R[0].mod(N);
            int par = R[1].testBit(0) ? 1 : 0;
            BigInteger s = k.modInverse(N).multiply(e.add(r.multiply(dd))).mod(N);
            if (s.compareTo(HALF_N) > 0) { s = N.subtract(s); par = 1 - par; }
            all.update(fixed(r, 32)); all.update(fixed(s, 32)); all.update((byte) par);
        }
        return tupleOf(all.digest());
    }

    // ------------------------------------------------------------------ search accelerator (module Bip32)
    // Native evaluation of Bip32!RareHardenedChild: the smallest hardened index i in lo..hi whose CKDpriv child of
    // (k, c) is valid and starts with at least nz zero bytes, or -1.  Semantically equal to the TLA+ definition
    // (Bip32!RareHardenedChildSpec), which PrimTest compares it with; it only makes a 2^20-candidate search feasible.
    @TLAPlusOperator(identifier = "RareHardenedChild", module = "Bip32", warn = false)
    public static Value rareHardenedChild(final Value k, final Value c, final Value nz, final Value lo, final Value hi)
            throws Exception {
        byte[] key = bytesOf(k), chain = bytesOf(c);
        int need = intOf(nz), from = intOf(lo), to = intOf(hi);
        BigInteger kk = new BigInteger(1, key);
        Mac mac = Mac.getInstance("HmacSHA512");
        mac.init(new SecretKeySpec(chain, "HmacSHA512"));
        byte[] data = new byte[37];
        System.arraycopy(key, 0, data, 1, 32);
        for (long i = from; i <= to; i++) {
            long idx = i | 0x80000000L;
            data[33] = (byte) (idx >>> 24); data[34] = (byte) (idx >>> 16); data[35] = (byte) (idx >>> 8); data[36] = (byte) idx;
            byte[] I = mac.doFinal(data);
            BigInteger il = new BigInteger(1, Arrays.copyOfRange(I, 0, 32));
            if (il.compareTo(N) >= 0) continue;
            BigInteger child = il.add(kk).mod(N);
            if (child.signum() == 0) continue;
            if (child.bitLength() <= 256 - 8 * need) return IntValue.gen((int) i);
        }
        return IntValue.gen(-1);
    }

    static byte[] cat(byte[]... parts) {
        int n = 0;
        for (byte[] p : parts) n += p.length;
        byte[] out = new byte[n];
        int pos = 0;
        for (byte[] p : parts) {
            System.arraycopy(p, 0, out, pos, p.length);
            pos += p.length;
        }
        return out;
    }
}
