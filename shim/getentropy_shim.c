/* LD_PRELOAD shim around libc getentropy for the real hdwallet binary.
 *
 * HDW_SHIM_LOG        file to append one line per request to:  "seq tid len rc hex"
 *                     seq is assigned and the line written under one mutex, AFTER the
 *                     bytes are in the caller's buffer: the log is a total order of
 *                     grants consistent with what every thread saw.
 * HDW_SHIM_FAIL_AT    comma separated request numbers (0-based, global) that fail with EIO
 * HDW_SHIM_FAIL_FROM  every request number >= this fails
 * HDW_SHIM_SLOW_AFTER_FAIL  milliseconds every request sleeps (before it is numbered) once a failure was
 *                     injected: gives the failed worker's error message ample time to reach the main thread,
 *                     so that a process that keeps searching after it is observably ignoring the failure
 */
#define _GNU_SOURCE
#include <dlfcn.h>
#include <errno.h>
#include <fcntl.h>
#include <pthread.h>
#include <stdio.h>
#include <stdlib.h>
#include <string.h>
#include <sys/syscall.h>
#include <unistd.h>

static pthread_mutex_t mu = PTHREAD_MUTEX_INITIALIZER;
static long seq = 0;
static int log_fd = -2;
static volatile int failed_once = 0;

static int should_fail(long n) {
    const char *from = getenv("HDW_SHIM_FAIL_FROM");
    if (from && *from && n >= atol(from)) return 1;
    const char *at = getenv("HDW_SHIM_FAIL_AT");
    if (!at) return 0;
    while (*at) {
        char *end;
        long k = strtol(at, &end, 10);
        if (end == at) break;
        if (k == n) return 1;
        at = (*end == ',') ? end + 1 : end;
    }
    return 0;
}

int getentropy(void *buffer, size_t len) {
    static int (*real)(void *, size_t) = NULL;
    if (failed_once) {
        const char *slow = getenv("HDW_SHIM_SLOW_AFTER_FAIL");
        if (slow && *slow) usleep(1000 * atol(slow));
    }
    pthread_mutex_lock(&mu);
    if (!real) real = (int (*)(void *, size_t))dlsym(RTLD_NEXT, "getentropy");
    if (log_fd == -2) {
        const char *p = getenv("HDW_SHIM_LOG");
        log_fd = p ? open(p, O_WRONLY | O_CREAT | O_APPEND, 0644) : -1;
    }
    long n = seq++;
    int rc;
    int saved = 0;
    if (should_fail(n)) {
        rc = -1;
        saved = EIO;
        failed_once = 1;
    } else {
        rc = real ? real(buffer, len) : -1;
        saved = errno;
    }
    if (log_fd >= 0) {
        size_t cap = 64 + 2 * len;
        char *line = malloc(cap);
        if (line) {
            int off = snprintf(line, cap, "%ld %ld %zu %d ", n, (long)syscall(SYS_gettid), len, rc);
            if (rc == 0) {
                const unsigned char *b = buffer;
                for (size_t i = 0; i < len; i++) off += snprintf(line + off, cap - off, "%02x", b[i]);
            }
            line[off++] = '\n';
            ssize_t w = write(log_fd, line, off);
            (void)w;
            free(line);
        }
    }
    pthread_mutex_unlock(&mu);
    errno = saved;
    return rc;
}
